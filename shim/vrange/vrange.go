// Package vrange owns the iteration order of selected Go maps: the overlay
// rewrites `for k, v := range m` over those maps into iteration over Keys(m).
// The order is the Perm-th permutation of the ascending key order, so a harness
// can enumerate every order for maps of up to 4 keys (rotations above that).
package vrange

import (
	"cmp"
	"fmt"
	"sort"
	"sync/atomic"
)

var perm atomic.Int64

// SetPerm selects the permutation used by Keys (0 = ascending order).
func SetPerm(k int) { perm.Store(int64(k)) }

// Keys returns the keys of m in the currently selected order.
func Keys[K cmp.Ordered, V any](m map[K]V) []K {
	keys := make([]K, 0, len(m))
	for k := range m {
		keys = append(keys, k)
	}
	sort.Slice(keys, func(i, j int) bool { return keys[i] < keys[j] })
	p := int(perm.Load())
	n := len(keys)
	if p == 0 || n < 2 {
		return keys
	}
	if n > 4 {
		r := p % n
		return append(keys[r:], keys[:r]...)
	}
	// p-th permutation in factorial number system
	out := make([]K, 0, n)
	rest := keys
	f := 1
	for i := 2; i < n; i++ {
		f *= i
	}
	p %= f * n
	for i := n; i >= 1; i-- {
		idx := p / f
		p %= f
		out = append(out, rest[idx])
		rest = append(append([]K{}, rest[:idx]...), rest[idx+1:]...)
		if i > 1 {
			f /= (i - 1)
		}
	}
	return out
}

// KeysStr returns the keys of m ordered by their printed form (for key types
// that are not ordered, e.g. pointers to values with a String method).
func KeysStr[K comparable, V any](m map[K]V) []K {
	keys := make([]K, 0, len(m))
	for k := range m {
		keys = append(keys, k)
	}
	sort.SliceStable(keys, func(i, j int) bool { return fmt.Sprint(keys[i]) < fmt.Sprint(keys[j]) })
	return keys
}
