// Package vsync replaces "sync" in instrumented builds (import rewriting by
// the overlay). Its Mutex / RWMutex / WaitGroup / Once keep their logical state
// under one internal lock and block on channels (a durable block for
// testing/synctest). While a controlled run is active (Run), an operation
// issued from a *focus* package is a scheduling point: the goroutine parks and
// the scheduler - the root goroutine of the synctest bubble - decides which
// parked thread proceeds, calling the explorer for every decision. Outside a
// run, or from non-focus packages, operations only block when contended.
package vsync

import (
	"fmt"
	"os"
	"runtime"
	"sort"
	"strings"
	rsync "sync"
	"sync/atomic"
	"testing/synctest"
	"time"
)

type (
	// Locker, Pool, Map and Cond are the real ones (Cond works over a shim Locker).
	Locker = rsync.Locker
	Pool   = rsync.Pool
	Map    = rsync.Map
	Cond   = rsync.Cond
)

// NewCond returns a real sync.Cond over l.
func NewCond(l Locker) *Cond { return rsync.NewCond(l) }

var big rsync.Mutex // protects all shim state; never held across a block

// ---- scheduler state

type opKind int

const (
	opStart opKind = iota
	opLock
	opRLock
	opWLock
	opWLockWait
	opWait
)

var kindNames = []string{"start", "Lock", "RLock", "WLock", "WLock(waiting)", "Wait"}

type op struct {
	kind opKind
	obj  interface{}
}

type thread struct {
	id      int
	gid     int64
	wake    chan bool // true = granted, false = run released (take the quiet path)
	pending *op
	harness bool
	done    bool
	name    string
}

var sched struct {
	active   atomic.Bool
	rootGid  int64
	threads  map[int64]*thread
	nextAux  int
	running  *thread
	steps    int
	focus    []string
	trace    []string
	keepLog  bool
	focusMem rsync.Map // pc -> bool
}

// Chooser is how the scheduler asks the explorer: n alternatives, preempt
// tells whether alternative 0 (continue the running thread) exists.
type Chooser func(n int, label string, preempt bool) int

// Config configures one controlled run.
type Config struct {
	Focus   []string      // function-name prefixes whose sync operations are scheduling points
	Horizon time.Duration // virtual time the scheduler may sleep in total while nothing is enabled
	Trace   bool
	MaxStep int // safety net against livelock (0 = 100000)
	// FreeStart lets every harness thread run to its first scheduling point
	// before the first decision (threads are started one after the other, so
	// the code before that point runs in thread order).
	FreeStart bool
	// AuxFirst changes the canonical order of enabled threads when the running
	// thread cannot continue: goroutines started by the code under test
	// (background writers, encoders) come before the harness threads instead of
	// after them. It selects a different default schedule, nothing else.
	AuxFirst bool
}

// Result describes a finished run.
type Result struct {
	Steps    int
	Deadlock bool
	Stuck    []string // pending operations at deadlock
	Livelock bool
	Trace    []string
}

// fast: a process that never runs the scheduler (the parent of the worker
// processes: it only runs set-up-free breadth-first searches and collects
// results) uses the real sync primitives directly. The mode is fixed at process
// start, because a lock taken in one mode cannot be released in the other.
var fast = os.Getenv("VERIF_WORKER") == "" && os.Getenv("VERIF_VSYNC") != "sched" && !hasReplayArg()

func hasReplayArg() bool {
	for _, a := range os.Args {
		if strings.HasPrefix(a, "-replay") || strings.HasPrefix(a, "--replay") {
			return true
		}
	}
	return false
}

func goid() int64 {
	var buf [64]byte
	n := runtime.Stack(buf[:], false)
	// "goroutine 123 ["
	s := buf[10:n]
	var id int64
	for _, c := range s {
		if c < '0' || c > '9' {
			break
		}
		id = id*10 + int64(c-'0')
	}
	return id
}

func inFocus(skip int) bool {
	var pcs [1]uintptr
	// frames: Callers, inFocus, point, the shim method, its caller (skip = 1)
	if runtime.Callers(skip+3, pcs[:]) == 0 {
		return false
	}
	if v, ok := sched.focusMem.Load(pcs[0]); ok {
		return v.(bool)
	}
	f, _ := runtime.CallersFrames(pcs[:]).Next()
	ok := false
	for _, p := range sched.focus {
		if strings.HasPrefix(f.Function, p) {
			ok = true
		}
	}
	sched.focusMem.Store(pcs[0], ok)
	return ok
}

// point parks the calling goroutine at a scheduling point. It returns true if
// the scheduler granted the operation (its effect is already applied), false if
// the caller must take the ordinary (quiet) path.
func point(kind opKind, obj interface{}, skip int) bool {
	if !sched.active.Load() {
		return false
	}
	if kind != opStart && !inFocus(skip) {
		return false
	}
	gid := goid()
	big.Lock()
	if !sched.active.Load() || gid == sched.rootGid {
		big.Unlock()
		return false
	}
	t := sched.threads[gid]
	if t == nil {
		sched.nextAux++
		t = &thread{id: 1000 + sched.nextAux, gid: gid, wake: make(chan bool, 1), name: fmt.Sprintf("aux%d", sched.nextAux)}
		sched.threads[gid] = t
	}
	t.pending = &op{kind, obj}
	big.Unlock()
	return <-t.wake
}

func enabledLocked(o *op) bool {
	switch o.kind {
	case opStart, opWLock:
		return true
	case opLock:
		return !o.obj.(*Mutex).held
	case opRLock:
		m := o.obj.(*RWMutex)
		return !m.w && m.wwait == 0
	case opWLockWait:
		m := o.obj.(*RWMutex)
		return !m.w && m.r == 0
	case opWait:
		return o.obj.(*WaitGroup).n == 0
	}
	return false
}

// grantLocked applies the effect of t's pending operation. It returns false
// if the thread stays parked (a writer that announced itself and now waits).
func grantLocked(t *thread) bool {
	o := t.pending
	switch o.kind {
	case opLock:
		o.obj.(*Mutex).held = true
	case opRLock:
		o.obj.(*RWMutex).r++
	case opWLock:
		m := o.obj.(*RWMutex)
		if !m.w && m.r == 0 {
			m.w = true
		} else {
			m.wwait++
			t.pending = &op{opWLockWait, m}
			return false
		}
	case opWLockWait:
		m := o.obj.(*RWMutex)
		m.wwait--
		m.w = true
	}
	t.pending = nil
	return true
}

// Run executes the harness threads under the controlled scheduler. It must be
// called from the root goroutine of a synctest bubble. It returns when every
// harness thread has finished (or on deadlock / livelock); afterwards all
// remaining goroutines run freely.
func Run(choose Chooser, cfg Config, bodies ...func()) Result {
	if fast {
		panic("vsync.Run in a process that started in fast (pass-through) mode: set VERIF_VSYNC=sched")
	}
	big.Lock()
	sched.rootGid = goid()
	sched.threads = map[int64]*thread{}
	sched.nextAux = 0
	sched.running = nil
	sched.steps = 0
	sched.focus = cfg.Focus
	sched.trace = nil
	sched.keepLog = cfg.Trace
	sched.focusMem = rsync.Map{}
	big.Unlock()
	sched.active.Store(true)
	if cfg.Horizon == 0 {
		cfg.Horizon = time.Hour
	}
	if cfg.MaxStep == 0 {
		cfg.MaxStep = 100000
	}
	var hs []*thread
	for i, f := range bodies {
		i, f := i, f
		reg := make(chan *thread, 1)
		go func() {
			t := &thread{id: i, gid: goid(), wake: make(chan bool, 1), harness: true, name: fmt.Sprintf("T%d", i)}
			big.Lock()
			sched.threads[t.gid] = t
			big.Unlock()
			reg <- t
			if !cfg.FreeStart {
				point(opStart, nil, 0)
			}
			defer func() {
				big.Lock()
				t.done = true
				big.Unlock()
			}()
			f()
		}()
		hs = append(hs, <-reg)
		synctest.Wait()
	}
	var res Result
	var slept time.Duration
	quantum := time.Millisecond
	for {
		synctest.Wait()
		big.Lock()
		alldone := true
		for _, t := range hs {
			if !t.done {
				alldone = false
			}
		}
		if alldone {
			big.Unlock()
			break
		}
		var parked []*thread
		for _, t := range sched.threads {
			if t.pending != nil && !t.done {
				parked = append(parked, t)
			}
		}
		sort.Slice(parked, func(i, j int) bool {
			if cfg.AuxFirst && parked[i].harness != parked[j].harness {
				return !parked[i].harness // goroutines started by the code under test come before the harness threads
			}
			if parked[i].id != parked[j].id {
				return parked[i].id < parked[j].id
			}
			return parked[i].gid < parked[j].gid
		})
		var enabled []*thread
		runningEnabled := false
		for _, t := range parked {
			if enabledLocked(t.pending) {
				if t == sched.running {
					runningEnabled = true
					continue
				}
				enabled = append(enabled, t)
			}
		}
		if runningEnabled {
			enabled = append([]*thread{sched.running}, enabled...)
		}
		if len(enabled) == 0 {
			if slept < cfg.Horizon {
				big.Unlock()
				time.Sleep(quantum)
				slept += quantum
				if quantum < time.Minute {
					quantum *= 2
				}
				continue
			}
			res.Deadlock = true
			for _, t := range parked {
				res.Stuck = append(res.Stuck, fmt.Sprintf("%s waits for %s", t.name, kindNames[t.pending.kind]))
			}
			for _, t := range hs {
				if !t.done && t.pending == nil {
					res.Stuck = append(res.Stuck, fmt.Sprintf("%s blocked outside the shim (channel/cond)", t.name))
				}
			}
			big.Unlock()
			break
		}
		quantum = time.Millisecond
		if sched.steps >= cfg.MaxStep {
			res.Livelock = true
			big.Unlock()
			break
		}
		var label string
		if len(enabled) > 1 || sched.keepLog {
			var sb strings.Builder
			for i, t := range enabled {
				if i > 0 {
					sb.WriteByte(',')
				}
				sb.WriteString(t.name)
				sb.WriteByte(':')
				sb.WriteString(kindNames[t.pending.kind])
			}
			label = sb.String()
		}
		big.Unlock()
		idx := 0
		if len(enabled) > 1 {
			idx = choose(len(enabled), label, runningEnabled)
		}
		big.Lock()
		t := enabled[idx]
		if sched.keepLog {
			sched.trace = append(sched.trace, fmt.Sprintf("%s:%s of [%s]", t.name, kindNames[t.pending.kind], label))
		}
		sched.steps++
		granted := grantLocked(t)
		if granted {
			sched.running = t
		}
		big.Unlock()
		if granted {
			t.wake <- true
		}
	}
	// release: everything parked takes the quiet path from here on
	sched.active.Store(false)
	big.Lock()
	for _, t := range sched.threads {
		if t.pending != nil {
			if t.pending.kind == opWLockWait {
				t.pending.obj.(*RWMutex).wwait--
			}
			t.pending = nil
			t.wake <- false
		}
	}
	res.Steps = sched.steps
	res.Trace = sched.trace
	big.Unlock()
	return res
}

// Yield is an explicit scheduling point for harness threads (between two
// operations that do not synchronise themselves).
func Yield() { point(opStart, nil, 0) }

// ---- Mutex

// Mutex is a mutual exclusion lock with the API of sync.Mutex.
type Mutex struct {
	held    bool
	waiters []chan struct{}
	rm      rsync.Mutex
}

// Lock locks m.
func (m *Mutex) Lock() {
	if fast {
		m.rm.Lock()
		return
	}
	if point(opLock, m, 1) {
		return
	}
	m.lockQuiet()
}

func (m *Mutex) lockQuiet() {
	big.Lock()
	if !m.held {
		m.held = true
		big.Unlock()
		return
	}
	ch := make(chan struct{})
	m.waiters = append(m.waiters, ch)
	big.Unlock()
	<-ch
}

// TryLock tries to lock m.
func (m *Mutex) TryLock() bool {
	if fast {
		return m.rm.TryLock()
	}
	big.Lock()
	defer big.Unlock()
	if m.held {
		return false
	}
	m.held = true
	return true
}

// Unlock unlocks m.
func (m *Mutex) Unlock() {
	if fast {
		m.rm.Unlock()
		return
	}
	big.Lock()
	if !m.held {
		big.Unlock()
		panic("sync: unlock of unlocked mutex")
	}
	if len(m.waiters) > 0 {
		ch := m.waiters[0]
		m.waiters = m.waiters[1:]
		big.Unlock()
		close(ch) // ownership handed over, held stays true
		return
	}
	m.held = false
	big.Unlock()
}

// ---- RWMutex

type rwWaiter struct {
	ch    chan struct{}
	write bool
}

// RWMutex is a reader/writer lock with the API (and writer preference) of sync.RWMutex.
type RWMutex struct {
	w     bool
	r     int
	wwait int
	q     []rwWaiter
	rrw   rsync.RWMutex
}

// Lock locks rw for writing.
func (rw *RWMutex) Lock() {
	if fast {
		rw.rrw.Lock()
		return
	}
	if point(opWLock, rw, 1) {
		return
	}
	big.Lock()
	if !rw.w && rw.r == 0 {
		rw.w = true
		big.Unlock()
		return
	}
	rw.wwait++
	ch := make(chan struct{})
	rw.q = append(rw.q, rwWaiter{ch, true})
	big.Unlock()
	<-ch
}

// TryLock tries to lock rw for writing.
func (rw *RWMutex) TryLock() bool {
	if fast {
		return rw.rrw.TryLock()
	}
	big.Lock()
	defer big.Unlock()
	if !rw.w && rw.r == 0 {
		rw.w = true
		return true
	}
	return false
}

// RLock locks rw for reading.
func (rw *RWMutex) RLock() {
	if fast {
		rw.rrw.RLock()
		return
	}
	if point(opRLock, rw, 1) {
		return
	}
	rw.rlockQuiet()
}

func (rw *RWMutex) rlockQuiet() {
	big.Lock()
	if !rw.w && rw.wwait == 0 {
		rw.r++
		big.Unlock()
		return
	}
	ch := make(chan struct{})
	rw.q = append(rw.q, rwWaiter{ch, false})
	big.Unlock()
	<-ch
}

// TryRLock tries to lock rw for reading.
func (rw *RWMutex) TryRLock() bool {
	if fast {
		return rw.rrw.TryRLock()
	}
	big.Lock()
	defer big.Unlock()
	if !rw.w && rw.wwait == 0 {
		rw.r++
		return true
	}
	return false
}

// wakeLocked hands the lock to queued quiet waiters in FIFO order.
func (rw *RWMutex) wakeLocked() (wake []chan struct{}) {
	for len(rw.q) > 0 {
		h := rw.q[0]
		if h.write {
			if rw.w || rw.r > 0 {
				break
			}
			rw.wwait--
			rw.w = true
			rw.q = rw.q[1:]
			wake = append(wake, h.ch)
			break
		}
		if rw.w {
			break
		}
		rw.r++
		rw.q = rw.q[1:]
		wake = append(wake, h.ch)
	}
	return wake
}

// Unlock unlocks rw for writing.
func (rw *RWMutex) Unlock() {
	if fast {
		rw.rrw.Unlock()
		return
	}
	big.Lock()
	if !rw.w {
		big.Unlock()
		panic("sync: Unlock of unlocked RWMutex")
	}
	rw.w = false
	wake := rw.wakeLocked()
	big.Unlock()
	for _, ch := range wake {
		close(ch)
	}
}

// RUnlock undoes a single RLock call.
func (rw *RWMutex) RUnlock() {
	if fast {
		rw.rrw.RUnlock()
		return
	}
	big.Lock()
	if rw.r <= 0 {
		big.Unlock()
		panic("sync: RUnlock of unlocked RWMutex")
	}
	rw.r--
	wake := rw.wakeLocked()
	big.Unlock()
	for _, ch := range wake {
		close(ch)
	}
}

type rlocker RWMutex

func (r *rlocker) Lock()   { (*RWMutex)(r).RLock() }
func (r *rlocker) Unlock() { (*RWMutex)(r).RUnlock() }

// RLocker returns a Locker whose Lock/Unlock call rw.RLock/rw.RUnlock.
func (rw *RWMutex) RLocker() Locker { return (*rlocker)(rw) }

// ---- WaitGroup

// WaitGroup has the API of sync.WaitGroup.
type WaitGroup struct {
	n       int
	waiters []chan struct{}
	rwg     rsync.WaitGroup
}

// Add adds delta to the counter.
func (wg *WaitGroup) Add(delta int) {
	if fast {
		wg.rwg.Add(delta)
		return
	}
	big.Lock()
	wg.n += delta
	if wg.n < 0 {
		big.Unlock()
		panic("sync: negative WaitGroup counter")
	}
	var wake []chan struct{}
	if wg.n == 0 {
		wake, wg.waiters = wg.waiters, nil
	}
	big.Unlock()
	for _, ch := range wake {
		close(ch)
	}
}

// Done decrements the counter.
func (wg *WaitGroup) Done() { wg.Add(-1) }

// Wait blocks until the counter is zero.
func (wg *WaitGroup) Wait() {
	if fast {
		wg.rwg.Wait()
		return
	}
	if point(opWait, wg, 1) {
		return
	}
	big.Lock()
	if wg.n == 0 {
		big.Unlock()
		return
	}
	ch := make(chan struct{})
	wg.waiters = append(wg.waiters, ch)
	big.Unlock()
	<-ch
}

// ---- Once

// Once has the API of sync.Once. A real Once would keep its internal mutex
// locked while the first caller is parked inside Do, blocking later callers
// where the bubble cannot see it.
type Once struct {
	done atomic.Bool
	m    Mutex
	ro   rsync.Once
}

// Do calls f if and only if Do is being called for the first time.
func (o *Once) Do(f func()) {
	if fast {
		o.ro.Do(f)
		return
	}
	if o.done.Load() {
		return
	}
	if !point(opLock, &o.m, 1) {
		o.m.lockQuiet()
	}
	defer o.m.Unlock()
	if !o.done.Load() {
		defer o.done.Store(true)
		f()
	}
}
