// Package vrand replaces math/rand where a random pick decides behaviour that a
// harness wants to enumerate (owner selection in the shard mapper).
package vrand

import (
	mrand "math/rand"
	"sync"
)

var (
	mu     sync.Mutex
	choose func(n int) int
)

// SetChooser installs the function that answers Intn (nil = real randomness).
func SetChooser(f func(n int) int) {
	mu.Lock()
	choose = f
	mu.Unlock()
}

// Intn returns the harness' choice in [0,n).
func Intn(n int) int {
	mu.Lock()
	f := choose
	mu.Unlock()
	if f == nil {
		return mrand.Intn(n)
	}
	return f(n)
}
