// Package vgroup replaces golang.org/x/sync/errgroup where the order in which
// concurrent calls complete decides behaviour a harness wants to enumerate
// (the order in which remote iterators are appended in the shard mapper).
// Functions handed to Go are run one after the other inside Wait, in an order
// picked by the harness; with no chooser installed the order is the order of
// the Go calls. Callers must not rely on the functions running before Wait.
package vgroup

import (
	"runtime"
	"sync"
)

var (
	mu     sync.Mutex
	choose func(n int, caller string) int
)

// SetChooser installs the function that picks one of n orders for the group
// waited on in function caller (nil = call order).
func SetChooser(f func(n int, caller string) int) {
	mu.Lock()
	choose = f
	mu.Unlock()
}

// Group has the Go/Wait surface of errgroup.Group.
type Group struct {
	mu sync.Mutex
	fs []func() error
}

// Go registers f.
func (g *Group) Go(f func() error) {
	g.mu.Lock()
	g.fs = append(g.fs, f)
	g.mu.Unlock()
}

// Orders returns the number of orders enumerated for n functions: every
// permutation up to three functions, the n rotations above that.
func Orders(n int) int {
	switch {
	case n < 2:
		return 1
	case n == 2:
		return 2
	case n == 3:
		return 6
	}
	return n
}

func order(n, k int) []int {
	idx := make([]int, n)
	for i := range idx {
		idx[i] = i
	}
	if k == 0 || n < 2 {
		return idx
	}
	if n > 3 {
		return append(idx[k%n:], idx[:k%n]...)
	}
	var out []int
	f := 1
	for i := 2; i < n; i++ {
		f *= i
	}
	for i := n; i >= 1; i-- {
		j := k / f
		k %= f
		out = append(out, idx[j])
		idx = append(append([]int{}, idx[:j]...), idx[j+1:]...)
		if i > 1 {
			f /= i - 1
		}
	}
	return out
}

// Wait runs the registered functions in the chosen order and returns the first error.
func (g *Group) Wait() error {
	g.mu.Lock()
	fs := g.fs
	g.fs = nil
	g.mu.Unlock()
	mu.Lock()
	c := choose
	mu.Unlock()
	k := 0
	if c != nil && len(fs) > 1 {
		name := ""
		if pc, _, _, ok := runtime.Caller(1); ok {
			if f := runtime.FuncForPC(pc); f != nil {
				name = f.Name()
			}
		}
		k = c(Orders(len(fs)), name)
	}
	var first error
	for _, i := range order(len(fs), k) {
		if err := fs[i](); err != nil && first == nil {
			first = err
		}
	}
	return first
}
