// Package vnet replaces the import of "net" in services/meta/service.go for the
// in-process meta cluster: Listen returns an in-memory listener of the vtcp
// registry, everything else the file uses is the real net package.
package vnet

import (
	"net"

	"github.com/influxdata/influxdb/pkg/vtcp"
)

type Listener = net.Listener
type Conn = net.Conn
type Addr = net.Addr

func Listen(network, address string) (net.Listener, error) { return vtcp.Listen(address, false), nil }

func SplitHostPort(hostport string) (string, string, error) { return net.SplitHostPort(hostport) }
func JoinHostPort(host, port string) string                  { return net.JoinHostPort(host, port) }
