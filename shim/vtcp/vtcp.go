// Package vtcp replaces the repository's tcp package in the coordinator for
// in-process clusters: connections are in-memory pipes to handlers registered
// per address, so a whole cluster runs inside one synctest bubble (virtual
// timeouts, quiescence detection) and every connection can be faulted.
package vtcp

import (
	"crypto/tls"
	"fmt"
	"net"
	"sync"
	"time"
)

var (
	mu       sync.Mutex
	handlers = map[string]func(net.Conn){}
	conns    []net.Conn
)

// Register installs the accept handler of the listener at addr. The handler
// receives the server side of every new connection (the mux header byte that
// the client writes first is still in the stream).
func Register(addr string, h func(net.Conn)) {
	mu.Lock()
	defer mu.Unlock()
	handlers[addr] = h
}

// Unregister removes the listener at addr (connection refused from now on).
func Unregister(addr string) {
	mu.Lock()
	defer mu.Unlock()
	delete(handlers, addr)
}

// Reset closes every connection ever made and forgets all listeners.
func Reset() {
	mu.Lock()
	cs := conns
	conns = nil
	handlers = map[string]func(net.Conn){}
	mu.Unlock()
	for _, c := range cs {
		c.Close()
	}
}

func dial(address string) (net.Conn, error) {
	mu.Lock()
	h := handlers[address]
	mu.Unlock()
	if h == nil {
		return nil, fmt.Errorf("dial tcp %s: connect: connection refused", address)
	}
	c, s := net.Pipe()
	mu.Lock()
	conns = append(conns, c, s)
	mu.Unlock()
	go h(s)
	return c, nil
}

// DialTLSTimeout connects to the in-memory listener at address.
func DialTLSTimeout(network, address string, tlsConfig *tls.Config, timeout time.Duration) (net.Conn, error) {
	return dial(address)
}

// DialTLSTimeoutHeader connects and writes the mux header byte.
func DialTLSTimeoutHeader(network, address string, tlsConfig *tls.Config, timeout time.Duration, header byte) (net.Conn, error) {
	c, err := dial(address)
	if err != nil {
		return nil, err
	}
	if _, err := c.Write([]byte{header}); err != nil {
		c.Close()
		return nil, err
	}
	return c, nil
}

// TLSClientConfig mirrors tcp.TLSClientConfig (no TLS in memory).
func TLSClientConfig(useTLS bool, skipTLS bool) *tls.Config { return nil }

// TLSConfig mirrors tcp.TLSConfig (no TLS in memory).
func TLSConfig(tlsConfig *tls.Config, useTLS bool, certFile, keyFile string) (*tls.Config, error) {
	return nil, nil
}
