// Package vtcp replaces the repository's tcp package in the coordinator for
// in-process clusters: connections are in-memory pipes to handlers registered
// per address, so a whole cluster runs inside one synctest bubble (virtual
// timeouts, quiescence detection) and every connection can be faulted.
package vtcp

import (
	"crypto/tls"
	"fmt"
	"net"
	"sync"
	"time"
)

var (
	mu       sync.Mutex
	handlers = map[string]func(net.Conn){}
	conns    []net.Conn
)

// Register installs the accept handler of the listener at addr. The handler
// receives the server side of every new connection (the mux header byte that
// the client writes first is still in the stream).
func Register(addr string, h func(net.Conn)) {
	mu.Lock()
	defer mu.Unlock()
	handlers[addr] = h
}

// Unregister removes the listener at addr (connection refused from now on).
func Unregister(addr string) {
	mu.Lock()
	defer mu.Unlock()
	delete(handlers, addr)
}

// Reset closes every connection ever made and forgets all listeners.
func Reset() {
	mu.Lock()
	cs := conns
	conns = nil
	handlers = map[string]func(net.Conn){}
	mu.Unlock()
	for _, c := range cs {
		c.Close()
	}
}

func dial(address string) (net.Conn, error) {
	mu.Lock()
	h := handlers[address]
	mu.Unlock()
	if h == nil {
		return nil, fmt.Errorf("dial tcp %s: connect: connection refused", address)
	}
	c, s := net.Pipe()
	mu.Lock()
	conns = append(conns, c, s)
	mu.Unlock()
	go h(s)
	return c, nil
}

// DialTLSTimeout connects to the in-memory listener at address.
func DialTLSTimeout(network, address string, tlsConfig *tls.Config, timeout time.Duration) (net.Conn, error) {
	return dial(address)
}

// DialTLSTimeoutHeader connects and writes the mux header byte.
func DialTLSTimeoutHeader(network, address string, tlsConfig *tls.Config, timeout time.Duration, header byte) (net.Conn, error) {
	c, err := dial(address)
	if err != nil {
		return nil, err
	}
	if _, err := c.Write([]byte{header}); err != nil {
		c.Close()
		return nil, err
	}
	return c, nil
}

// TLSClientConfig mirrors tcp.TLSClientConfig (no TLS in memory).
func TLSClientConfig(useTLS bool, skipTLS bool) *tls.Config { return nil }

// TLSConfig mirrors tcp.TLSConfig (no TLS in memory).
func TLSConfig(tlsConfig *tls.Config, useTLS bool, certFile, keyFile string) (*tls.Config, error) {
	return nil, nil
}

// ---- listeners (used by the in-process meta service: raft layer and HTTP)

type memAddr string

func (a memAddr) Network() string { return "tcp" }
func (a memAddr) String() string  { return string(a) }

// Listener is an in-memory net.Listener registered under an address.
type Listener struct {
	addr   string
	ch     chan net.Conn
	once   sync.Once
	closed chan struct{}
}

// Listen registers an in-memory listener at addr. With stripHeader set the first
// byte a client writes (the mux header of the repository's tcp.Mux) is consumed
// before the connection is handed to Accept.
func Listen(addr string, stripHeader bool) *Listener {
	l := &Listener{addr: addr, ch: make(chan net.Conn), closed: make(chan struct{})}
	Register(addr, func(c net.Conn) {
		if stripHeader {
			var b [1]byte
			if _, err := c.Read(b[:]); err != nil {
				c.Close()
				return
			}
		}
		select {
		case l.ch <- c:
		case <-l.closed:
			c.Close()
		}
	})
	return l
}

func (l *Listener) Accept() (net.Conn, error) {
	select {
	case c := <-l.ch:
		return c, nil
	case <-l.closed:
		return nil, fmt.Errorf("accept tcp %s: use of closed network connection", l.addr)
	}
}

func (l *Listener) Close() error {
	l.once.Do(func() {
		close(l.closed)
		mu.Lock()
		delete(handlers, l.addr)
		mu.Unlock()
	})
	return nil
}

func (l *Listener) Addr() net.Addr { return memAddr(l.addr) }

// Dial connects to the in-memory listener at address (for HTTP transports).
func Dial(address string) (net.Conn, error) { return dial(address) }

// CloseConnsOf closes every connection whose server side was accepted at addr
// or that was dialled to addr (a node that stops loses its connections).
func CloseAll() {
	mu.Lock()
	cs := conns
	conns = nil
	mu.Unlock()
	for _, c := range cs {
		c.Close()
	}
}
