module verif

go 1.26.8

require (
	github.com/dgrijalva/jwt-go/v4 v4.0.0-preview1
	github.com/gogo/protobuf v1.3.2
	github.com/golang/snappy v0.0.4
	github.com/hashicorp/raft v1.3.11
	github.com/influxdata/influxdb v0.0.0
	github.com/influxdata/influxql v1.2.0
	golang.org/x/crypto v0.23.0
)

require (
	github.com/apache/arrow/go/arrow v0.0.0-20211112161151-bc219186db40 // indirect
	github.com/armon/go-metrics v0.0.0-20190430140413-ec5e00d3c878 // indirect
	github.com/beorn7/perks v1.0.1 // indirect
	github.com/bmizerany/pat v0.0.0-20170815010413-6226ea591a40 // indirect
	github.com/boltdb/bolt v1.3.1 // indirect
	github.com/c-bata/go-prompt v0.2.2 // indirect
	github.com/cespare/xxhash v1.1.0 // indirect
	github.com/cespare/xxhash/v2 v2.2.0 // indirect
	github.com/dgryski/go-bitstream v0.0.0-20180413035011-3522498ce2c8 // indirect
	github.com/glycerine/go-unsnap-stream v0.0.0-20180323001048-9f0cb55181dd // indirect
	github.com/gofrs/uuid v3.3.0+incompatible // indirect
	github.com/golang/protobuf v1.5.4 // indirect
	github.com/google/flatbuffers v22.9.30-0.20221019131441-5792623df42e+incompatible // indirect
	github.com/google/go-cmp v0.5.9 // indirect
	github.com/hashicorp/go-hclog v0.9.1 // indirect
	github.com/hashicorp/go-immutable-radix v1.0.0 // indirect
	github.com/hashicorp/go-msgpack v0.5.5 // indirect
	github.com/hashicorp/golang-lru v0.5.1 // indirect
	github.com/hashicorp/raft-boltdb/v2 v2.2.2 // indirect
	github.com/influxdata/flux v0.65.1 // indirect
	github.com/influxdata/roaring v0.4.13-0.20180809181101-fc520f41fab6 // indirect
	github.com/influxdata/tdigest v0.0.2-0.20210216194612-fc98d27c9e8b // indirect
	github.com/jsternberg/zap-logfmt v1.2.0 // indirect
	github.com/jwilder/encoding v0.0.0-20170811194829-b4e1701a28ef // indirect
	github.com/mattn/go-isatty v0.0.16 // indirect
	github.com/mattn/go-runewidth v0.0.3 // indirect
	github.com/matttproud/golang_protobuf_extensions v1.0.1 // indirect
	github.com/opentracing/opentracing-go v1.2.0 // indirect
	github.com/philhofer/fwd v1.0.0 // indirect
	github.com/pkg/errors v0.9.1 // indirect
	github.com/pkg/term v0.0.0-20180730021639-bffc007b7fd5 // indirect
	github.com/prometheus/client_golang v1.11.1 // indirect
	github.com/prometheus/client_model v0.2.0 // indirect
	github.com/prometheus/common v0.26.0 // indirect
	github.com/prometheus/procfs v0.6.0 // indirect
	github.com/tinylib/msgp v1.1.0 // indirect
	github.com/xlab/treeprint v0.0.0-20180616005107-d6fb6747feb6 // indirect
	go.etcd.io/bbolt v1.3.5 // indirect
	go.uber.org/atomic v1.7.0 // indirect
	go.uber.org/multierr v1.6.0 // indirect
	go.uber.org/zap v1.16.0 // indirect
	golang.org/x/net v0.25.0 // indirect
	golang.org/x/sync v0.5.0 // indirect
	golang.org/x/sys v0.23.0 // indirect
	golang.org/x/text v0.15.0 // indirect
	golang.org/x/time v0.0.0-20210220033141-f8bda1e9f3ba // indirect
	golang.org/x/xerrors v0.0.0-20220907171357-04be3eba64a2 // indirect
	google.golang.org/genproto v0.0.0-20230410155749-daa745c078e1 // indirect
	google.golang.org/grpc v1.56.3 // indirect
	google.golang.org/protobuf v1.33.0 // indirect
)

replace github.com/influxdata/influxdb => /repo

replace github.com/influxdata/influxql => github.com/influxtsdb/influxql v1.1.1-0.20240810101344-3240ba2d3b01
