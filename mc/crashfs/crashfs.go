// Package crashfs turns one run of a workload into every crash image the
// property's crash model admits. The workload runs once under strace; the
// syscall log is replayed on an inode-level model file system; after every
// mutation (a prefix of the mutation log = one crash point) the tree can be
// materialised, optionally with the last unsynced write to a log file torn at
// a chosen length. Markers written by the workload to /dev/null ("ACK 3",
// "BEGIN 4") are part of the same totally ordered log, so the set of
// acknowledged operations at every crash point is known.
package crashfs

import (
	"bufio"
	"crypto/sha1"
	"encoding/hex"
	"fmt"
	"os"
	"os/exec"
	"path/filepath"
	"sort"
	"strconv"
	"strings"
)

// Op is one parsed syscall that matters.
type Op struct {
	Line   int
	Name   string // open write pwrite lseek ftruncate truncate fsync rename unlink rmdir mkdir link close marker
	Path   string
	Path2  string
	FD     int
	Data   []byte
	Off    int64
	Len    int64
	Flags  string
	Ret    int64
	Marker string
}

// Trace runs cmd under strace and writes the syscall log to logPath.
func Trace(cmd *exec.Cmd, logPath string) ([]byte, error) {
	args := []string{"-f", "-y", "-xx", "-s", "33554432", "-o", logPath,
		"-e", "trace=openat,open,creat,write,pwrite64,writev,pwritev,lseek,ftruncate,truncate,fsync,fdatasync,rename,renameat,renameat2,unlink,unlinkat,mkdir,mkdirat,rmdir,link,linkat,close,dup,dup2,dup3,fallocate,sync_file_range,copy_file_range,sendfile,splice",
		cmd.Path}
	args = append(args, cmd.Args[1:]...)
	c := exec.Command("strace", args...)
	c.Env = cmd.Env
	c.Dir = cmd.Dir
	return c.CombinedOutput()
}

func unhex(s string) (string, error) {
	// strings look like "\x2f\x74..." (with -xx every byte is escaped); may end with "..." if cut
	if len(s) < 2 || s[0] != '"' {
		return "", fmt.Errorf("not a string: %.40s", s)
	}
	end := strings.LastIndexByte(s, '"')
	if end <= 0 {
		return "", fmt.Errorf("unterminated string")
	}
	if strings.HasSuffix(s, "...") {
		return "", fmt.Errorf("string truncated by strace (-s too small)")
	}
	body := s[1:end]
	out := make([]byte, 0, len(body)/4)
	for i := 0; i < len(body); {
		if body[i] == '\\' && i+3 < len(body) && body[i+1] == 'x' {
			b, err := strconv.ParseUint(body[i+2:i+4], 16, 8)
			if err != nil {
				return "", err
			}
			out = append(out, byte(b))
			i += 4
		} else {
			out = append(out, body[i])
			i++
		}
	}
	return string(out), nil
}

// fdArg parses `7<\x2f...>` into (7, path).
func fdArg(s string) (int, string) {
	i := strings.IndexByte(s, '<')
	if i < 0 {
		n, _ := strconv.Atoi(s)
		return n, ""
	}
	n, _ := strconv.Atoi(s[:i])
	p, _ := unhex("\"" + strings.TrimSuffix(s[i+1:], ">") + "\"")
	return n, p
}

func splitArgs(s string) []string {
	var out []string
	depth, inq, start := 0, false, 0
	for i := 0; i < len(s); i++ {
		c := s[i]
		switch {
		case c == '"':
			inq = !inq
		case inq:
		case c == '(' || c == '{' || c == '[':
			depth++
		case c == ')' || c == '}' || c == ']':
			depth--
		case c == ',' && depth == 0:
			out = append(out, strings.TrimSpace(s[start:i]))
			start = i + 1
		}
	}
	if start < len(s) {
		out = append(out, strings.TrimSpace(s[start:]))
	}
	return out
}

// Parse reads a strace log and returns the operations that touch root (or are markers).
func Parse(logPath, root string) ([]Op, error) {
	f, err := os.Open(logPath)
	if err != nil {
		return nil, err
	}
	defer f.Close()
	sc := bufio.NewScanner(f)
	sc.Buffer(make([]byte, 1<<20), 1<<30)
	pending := map[string]string{}
	var ops []Op
	lineNo := 0
	for sc.Scan() {
		lineNo++
		line := sc.Text()
		sp := strings.IndexByte(line, ' ')
		if sp < 0 {
			continue
		}
		pid, rest := line[:sp], strings.TrimSpace(line[sp+1:])
		if strings.HasPrefix(rest, "---") || strings.HasPrefix(rest, "+++") {
			continue
		}
		if strings.HasSuffix(rest, "<unfinished ...>") {
			pending[pid] = strings.TrimSuffix(rest, "<unfinished ...>")
			continue
		}
		if strings.HasPrefix(rest, "<... ") {
			i := strings.Index(rest, "resumed>")
			if i < 0 {
				continue
			}
			rest = pending[pid] + rest[i+len("resumed>"):]
			delete(pending, pid)
		}
		open := strings.IndexByte(rest, '(')
		eq := strings.LastIndex(rest, ") = ")
		if open < 0 || eq < 0 {
			continue
		}
		name := rest[:open]
		args := splitArgs(rest[open+1 : eq])
		retS := strings.TrimSpace(rest[eq+4:])
		retFD, retPath := fdArg(strings.Fields(retS)[0])
		ret := int64(retFD)
		if strings.HasPrefix(retS, "-1") {
			continue // failed syscalls change nothing
		}
		under := func(p string) bool { return p == root || strings.HasPrefix(p, root+"/") }
		abs := func(dirArg, p string) string {
			if filepath.IsAbs(p) {
				return filepath.Clean(p)
			}
			_, d := fdArg(dirArg)
			return filepath.Clean(filepath.Join(d, p))
		}
		op := Op{Line: lineNo}
		switch name {
		case "openat", "open", "creat":
			var p, flags string
			if name == "openat" {
				s, err := unhex(args[1])
				if err != nil {
					return nil, fmt.Errorf("line %d: %v", lineNo, err)
				}
				p, flags = abs(args[0], s), args[2]
			} else {
				s, err := unhex(args[0])
				if err != nil {
					return nil, fmt.Errorf("line %d: %v", lineNo, err)
				}
				p = abs("AT_FDCWD", s)
				if len(args) > 1 {
					flags = args[1]
				}
				if name == "creat" {
					flags = "O_WRONLY|O_CREAT|O_TRUNC"
				}
			}
			_ = retPath
			if p == "/dev/null" {
				op = Op{Line: lineNo, Name: "open", Path: p, FD: int(ret), Flags: flags}
			} else if under(p) {
				op = Op{Line: lineNo, Name: "open", Path: p, FD: int(ret), Flags: flags}
			} else {
				continue
			}
		case "write", "pwrite64":
			fd, p := fdArg(args[0])
			if p != "/dev/null" && !under(p) {
				continue
			}
			s, err := unhex(args[1])
			if err != nil {
				return nil, fmt.Errorf("line %d: %v", lineNo, err)
			}
			data := []byte(s)[:ret]
			if p == "/dev/null" {
				op = Op{Line: lineNo, Name: "marker", Marker: string(data)}
			} else if name == "write" {
				op = Op{Line: lineNo, Name: "write", FD: fd, Path: p, Data: data}
			} else {
				off, _ := strconv.ParseInt(args[3], 10, 64)
				op = Op{Line: lineNo, Name: "pwrite", FD: fd, Path: p, Data: data, Off: off}
			}
		case "copy_file_range":
			// copy_file_range(fd_in, off_in, fd_out, off_out, len, flags) = n
			fdIn, pIn := fdArg(args[0])
			fdOut, pOut := fdArg(args[2])
			if !under(pOut) {
				continue
			}
			if !under(pIn) {
				return nil, fmt.Errorf("line %d: copy_file_range from outside the root (%s)", lineNo, pIn)
			}
			offIn, offOut := int64(-1), int64(-1)
			if args[1] != "NULL" {
				fmt.Sscanf(strings.Trim(args[1], "[]"), "%d", &offIn)
			}
			if args[3] != "NULL" {
				fmt.Sscanf(strings.Trim(args[3], "[]"), "%d", &offOut)
			}
			op = Op{Line: lineNo, Name: "copy", FD: fdOut, Path: pOut, Path2: pIn, Off: offOut, Len: ret, Ret: int64(fdIn), Flags: fmt.Sprint(offIn)}
		case "sendfile", "splice":
			_, p := fdArg(args[0])
			_, p2 := fdArg(args[1])
			if under(p) || under(p2) {
				return nil, fmt.Errorf("line %d: unsupported syscall %s on %s/%s", lineNo, name, p, p2)
			}
			continue
		case "writev", "pwritev", "fallocate", "sync_file_range", "dup", "dup2", "dup3":
			_, p := fdArg(args[0])
			if under(p) {
				return nil, fmt.Errorf("line %d: unsupported syscall %s on %s", lineNo, name, p)
			}
			continue
		case "lseek":
			fd, p := fdArg(args[0])
			if !under(p) {
				continue
			}
			op = Op{Line: lineNo, Name: "lseek", FD: fd, Path: p, Off: ret}
		case "ftruncate":
			fd, p := fdArg(args[0])
			if !under(p) {
				continue
			}
			n, _ := strconv.ParseInt(args[1], 10, 64)
			op = Op{Line: lineNo, Name: "ftruncate", FD: fd, Path: p, Len: n}
		case "truncate":
			s, _ := unhex(args[0])
			p := abs("AT_FDCWD", s)
			if !under(p) {
				continue
			}
			n, _ := strconv.ParseInt(args[1], 10, 64)
			op = Op{Line: lineNo, Name: "truncate", Path: p, Len: n}
		case "fsync", "fdatasync":
			fd, p := fdArg(args[0])
			if !under(p) {
				continue
			}
			op = Op{Line: lineNo, Name: "fsync", FD: fd, Path: p}
		case "rename", "renameat", "renameat2":
			var a, b string
			if name == "rename" {
				x, _ := unhex(args[0])
				y, _ := unhex(args[1])
				a, b = abs("AT_FDCWD", x), abs("AT_FDCWD", y)
			} else {
				x, _ := unhex(args[1])
				y, _ := unhex(args[3])
				a, b = abs(args[0], x), abs(args[2], y)
			}
			if !under(a) && !under(b) {
				continue
			}
			op = Op{Line: lineNo, Name: "rename", Path: a, Path2: b}
		case "unlink", "unlinkat", "rmdir":
			var p string
			isDir := name == "rmdir"
			if name == "unlinkat" {
				x, _ := unhex(args[1])
				p = abs(args[0], x)
				isDir = strings.Contains(args[2], "AT_REMOVEDIR")
			} else {
				x, _ := unhex(args[0])
				p = abs("AT_FDCWD", x)
			}
			if !under(p) {
				continue
			}
			if isDir {
				op = Op{Line: lineNo, Name: "rmdir", Path: p}
			} else {
				op = Op{Line: lineNo, Name: "unlink", Path: p}
			}
		case "mkdir", "mkdirat":
			var p string
			if name == "mkdirat" {
				x, _ := unhex(args[1])
				p = abs(args[0], x)
			} else {
				x, _ := unhex(args[0])
				p = abs("AT_FDCWD", x)
			}
			if !under(p) {
				continue
			}
			op = Op{Line: lineNo, Name: "mkdir", Path: p}
		case "link", "linkat":
			var a, b string
			if name == "link" {
				x, _ := unhex(args[0])
				y, _ := unhex(args[1])
				a, b = abs("AT_FDCWD", x), abs("AT_FDCWD", y)
			} else {
				x, _ := unhex(args[1])
				y, _ := unhex(args[3])
				a, b = abs(args[0], x), abs(args[2], y)
			}
			if !under(a) && !under(b) {
				continue
			}
			op = Op{Line: lineNo, Name: "link", Path: a, Path2: b}
		case "close":
			fd, p := fdArg(args[0])
			if p != "/dev/null" && !under(p) {
				continue
			}
			op = Op{Line: lineNo, Name: "close", FD: fd, Path: p}
		default:
			continue
		}
		ops = append(ops, op)
	}
	return ops, sc.Err()
}

// ---- model file system

type inode struct {
	data   []byte
	size   int64 // logical size (>= len(data); the rest is zeros)
	synced int64 // size at the last fsync
	// last unsynced write (for torn tails)
	lastOff  int64
	lastOld  []byte
	lastNew  []byte
	lastSize int64 // logical size before the last write
	hash     string
}

type desc struct {
	ino    *inode
	off    int64
	append bool
}

// FS is the model file system.
type FS struct {
	Root  string
	files map[string]*inode
	dirs  map[string]bool
	fds   map[int]*desc
	// LastWrite is the path of the file the most recent mutation wrote to ("" if it was not a write).
	LastWrite string
}

// NewFS returns an empty model rooted at root (root exists).
func NewFS(root string) *FS {
	return &FS{Root: root, files: map[string]*inode{}, dirs: map[string]bool{root: true}, fds: map[int]*desc{}}
}

func (ino *inode) writeAt(off int64, b []byte) {
	ino.lastOff, ino.lastSize = off, ino.size
	end := off + int64(len(b))
	if int64(len(ino.data)) < end {
		nd := make([]byte, end)
		copy(nd, ino.data)
		ino.data = nd
	}
	ino.lastOld = append([]byte(nil), ino.data[off:end]...)
	ino.lastNew = append([]byte(nil), b...)
	copy(ino.data[off:], b)
	if end > ino.size {
		ino.size = end
	}
	ino.hash = ""
}

func (ino *inode) truncate(n int64) {
	if n < int64(len(ino.data)) {
		ino.data = ino.data[:n]
	}
	ino.size = n
	ino.lastNew = nil
	ino.hash = ""
}

// Apply applies one operation; it reports whether the durable tree changed.
func (fs *FS) Apply(op Op) (mutated bool, err error) {
	fs.LastWrite = ""
	switch op.Name {
	case "open":
		if op.Path == "/dev/null" {
			return false, nil
		}
		if fs.dirs[op.Path] {
			fs.fds[op.FD] = &desc{}
			return false, nil
		}
		ino := fs.files[op.Path]
		if ino == nil {
			if !strings.Contains(op.Flags, "O_CREAT") {
				return false, fmt.Errorf("line %d: open of unknown file %s without O_CREAT", op.Line, op.Path)
			}
			ino = &inode{}
			fs.files[op.Path] = ino
			mutated = true
		}
		if strings.Contains(op.Flags, "O_TRUNC") && ino.size > 0 {
			ino.truncate(0)
			mutated = true
		}
		fs.fds[op.FD] = &desc{ino: ino, append: strings.Contains(op.Flags, "O_APPEND")}
	case "write", "pwrite":
		d := fs.fds[op.FD]
		if d == nil || d.ino == nil {
			return false, fmt.Errorf("line %d: write to unknown fd %d (%s)", op.Line, op.FD, op.Path)
		}
		off := d.off
		if op.Name == "pwrite" {
			off = op.Off
		} else if d.append {
			off = d.ino.size
		}
		d.ino.writeAt(off, op.Data)
		if op.Name == "write" {
			d.off = off + int64(len(op.Data))
		}
		fs.LastWrite = op.Path
		mutated = true
	case "copy":
		out, in := fs.fds[op.FD], fs.fds[int(op.Ret)]
		if out == nil || out.ino == nil || in == nil || in.ino == nil {
			return false, fmt.Errorf("line %d: copy_file_range on unknown descriptors", op.Line)
		}
		var offIn int64
		fmt.Sscan(op.Flags, &offIn)
		if offIn < 0 {
			offIn = in.off
		}
		if offIn+op.Len > in.ino.size {
			return false, fmt.Errorf("line %d: copy_file_range reads past the modelled end of %s (offset of the source descriptor unknown)", op.Line, op.Path2)
		}
		src := make([]byte, op.Len)
		if offIn < int64(len(in.ino.data)) {
			copy(src, in.ino.data[offIn:])
		}
		offOut := op.Off
		if offOut < 0 {
			offOut = out.off
			if out.append {
				offOut = out.ino.size
			}
		}
		out.ino.writeAt(offOut, src)
		if op.Off < 0 {
			out.off = offOut + op.Len
		}
		if op.Flags == "-1" {
			in.off = offIn + op.Len
		}
		fs.LastWrite = op.Path
		mutated = true
	case "lseek":
		if d := fs.fds[op.FD]; d != nil {
			d.off = op.Off
		}
	case "ftruncate":
		d := fs.fds[op.FD]
		if d == nil || d.ino == nil {
			return false, fmt.Errorf("line %d: ftruncate of unknown fd %d", op.Line, op.FD)
		}
		d.ino.truncate(op.Len)
		mutated = true
	case "truncate":
		if ino := fs.files[op.Path]; ino != nil {
			ino.truncate(op.Len)
			mutated = true
		}
	case "fsync":
		if d := fs.fds[op.FD]; d != nil && d.ino != nil {
			d.ino.synced = d.ino.size
			d.ino.lastNew = nil
		}
	case "rename":
		if ino := fs.files[op.Path]; ino != nil {
			delete(fs.files, op.Path)
			fs.files[op.Path2] = ino
			mutated = true
		} else if fs.dirs[op.Path] {
			pre := op.Path + "/"
			for p := range fs.dirs {
				if p == op.Path || strings.HasPrefix(p, pre) {
					delete(fs.dirs, p)
					fs.dirs[op.Path2+strings.TrimPrefix(p, op.Path)] = true
				}
			}
			for p, ino := range fs.files {
				if strings.HasPrefix(p, pre) {
					delete(fs.files, p)
					fs.files[op.Path2+strings.TrimPrefix(p, op.Path)] = ino
				}
			}
			mutated = true
		} else {
			return false, fmt.Errorf("line %d: rename of unknown path %s", op.Line, op.Path)
		}
	case "unlink":
		if _, ok := fs.files[op.Path]; ok {
			delete(fs.files, op.Path)
			mutated = true
		}
	case "rmdir":
		if fs.dirs[op.Path] {
			delete(fs.dirs, op.Path)
			mutated = true
		}
	case "mkdir":
		if !fs.dirs[op.Path] {
			fs.dirs[op.Path] = true
			mutated = true
		}
	case "link":
		if ino := fs.files[op.Path]; ino != nil {
			fs.files[op.Path2] = ino
			mutated = true
		}
	case "close":
		delete(fs.fds, op.FD)
	}
	return mutated, nil
}

// TornChoices returns the lengths (number of bytes of the last write that
// reach the disk) to try for a torn version of the last write to path: one
// representative per class in quick mode, every length otherwise. The full
// length is not included (that is the untorn image).
func (fs *FS) TornChoices(path string, every bool) []int {
	ino := fs.files[path]
	if ino == nil || ino.lastNew == nil {
		return nil
	}
	n := len(ino.lastNew)
	if n == 0 {
		return nil
	}
	set := map[int]bool{}
	if every {
		for i := 0; i < n; i++ {
			set[i] = true
		}
	} else {
		for _, c := range []int{0, 1, 3, 4, 5, 6, n / 2, n - 1} {
			if c >= 0 && c < n {
				set[c] = true
			}
		}
	}
	var out []int
	for c := range set {
		out = append(out, c)
	}
	sort.Ints(out)
	return out
}

func (ino *inode) sum() string {
	if ino.hash == "" {
		h := sha1.New()
		h.Write(ino.data)
		fmt.Fprintf(h, "|%d", ino.size)
		ino.hash = hex.EncodeToString(h.Sum(nil)[:10])
	}
	return ino.hash
}

// Hash identifies the tree; with torn >= 0 the last write to tornPath keeps only torn bytes.
func (fs *FS) Hash(tornPath string, torn int) string {
	var paths []string
	for p := range fs.files {
		paths = append(paths, p)
	}
	sort.Strings(paths)
	h := sha1.New()
	for _, p := range paths {
		if p == tornPath && torn >= 0 {
			fmt.Fprintf(h, "%s=%s@torn%d\n", p, fs.files[p].sum(), torn)
		} else {
			fmt.Fprintf(h, "%s=%s\n", p, fs.files[p].sum())
		}
	}
	var ds []string
	for d := range fs.dirs {
		ds = append(ds, d)
	}
	sort.Strings(ds)
	fmt.Fprintf(h, "%v", ds)
	return hex.EncodeToString(h.Sum(nil)[:12])
}

// Materialize writes the tree below dst (which replaces Root in every path).
func (fs *FS) Materialize(dst, tornPath string, torn int) error {
	var ds []string
	for d := range fs.dirs {
		ds = append(ds, d)
	}
	sort.Strings(ds)
	for _, d := range ds {
		if err := os.MkdirAll(dst+strings.TrimPrefix(d, fs.Root), 0o755); err != nil {
			return err
		}
	}
	for p, ino := range fs.files {
		data, size := ino.data, ino.size
		if p == tornPath && torn >= 0 && ino.lastNew != nil {
			// only the first torn bytes of the last write reached the disk
			nd := append([]byte(nil), ino.data...)
			end := ino.lastOff + int64(len(ino.lastNew))
			copy(nd[ino.lastOff:end], ino.lastOld)
			copy(nd[ino.lastOff:], ino.lastNew[:torn])
			size = ino.lastSize
			if t := ino.lastOff + int64(torn); t > size {
				size = t
			}
			if int64(len(nd)) > size {
				nd = nd[:size]
			}
			data = nd
		}
		out := dst + strings.TrimPrefix(p, fs.Root)
		os.MkdirAll(filepath.Dir(out), 0o755)
		f, err := os.OpenFile(out, os.O_CREATE|os.O_WRONLY|os.O_TRUNC, 0o644)
		if err != nil {
			return err
		}
		if _, err := f.Write(data); err != nil {
			f.Close()
			return err
		}
		if size > int64(len(data)) {
			if err := f.Truncate(size); err != nil {
				f.Close()
				return err
			}
		}
		f.Close()
	}
	return nil
}

// CompareWithDir checks that the model tree equals the real tree below dir
// (which stands for Root): the self-check that the syscall model was adequate
// for this trace.
func (fs *FS) CompareWithDir(dir string) error {
	real := map[string]bool{}
	err := filepath.Walk(dir, func(p string, info os.FileInfo, err error) error {
		if err != nil || info.IsDir() {
			return err
		}
		mp := fs.Root + strings.TrimPrefix(p, dir)
		real[mp] = true
		ino := fs.files[mp]
		if ino == nil {
			return fmt.Errorf("file %s exists on disk but not in the model", mp)
		}
		if info.Size() != ino.size {
			return fmt.Errorf("file %s has %d bytes on disk, %d in the model", mp, info.Size(), ino.size)
		}
		b, rerr := os.ReadFile(p)
		if rerr != nil {
			return rerr
		}
		for i := range b {
			var m byte
			if i < len(ino.data) {
				m = ino.data[i]
			}
			if b[i] != m {
				return fmt.Errorf("file %s differs from the model at byte %d", mp, i)
			}
		}
		return nil
	})
	if err != nil {
		return err
	}
	for p := range fs.files {
		if !real[p] {
			return fmt.Errorf("file %s exists in the model but not on disk", p)
		}
	}
	return nil
}

// Files returns the paths of all files in the model.
func (fs *FS) Files() []string {
	var out []string
	for p := range fs.files {
		out = append(out, p)
	}
	sort.Strings(out)
	return out
}
