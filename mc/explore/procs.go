package explore

import (
	"bufio"
	"encoding/json"
	"fmt"
	"os"
	"os/exec"
	"strings"
	"sync"
	"time"
)

// Multi-process exploration: scheduler harnesses keep global state (one
// controlled scheduler per process, GOMAXPROCS=1 for deterministic goroutine
// ids), so subtrees are farmed out to worker processes. A worker receives a
// batch of prefixes and a budget, runs a local depth-first search and returns
// its statistics plus the prefixes it did not get to. Before every execution
// it announces the prefix it runs, so a crash or deadlock (which cannot be
// unwound inside a synctest bubble) is attributed to an exact tape: prefix,
// then default choices.

type workerReq struct {
	Prefixes [][]int `json:"prefixes"`
	Budget   int     `json:"budget"`
	Bound    int     `json:"bound"`
}

type workerResp struct {
	Report   *Report `json:"report"`
	Leftover [][]int `json:"leftover"`
	Exiting  bool    `json:"exiting"`
}

var worker struct {
	active   bool
	out      *bufio.Writer
	stack    [][]int
	rep      *Report
	current  []int
	bound    int
	flushing sync.Mutex
}

// IsWorker reports whether this process was started as an exploration worker
// for the named scenario.
func IsWorker(scenario string) bool { return os.Getenv("VERIF_WORKER") == scenario }

// WorkerScenario returns the scenario this worker process serves ("" if none).
func WorkerScenario() string { return os.Getenv("VERIF_WORKER") }

// WorkerLoop serves exploration requests on stdin/stdout until stdin closes.
func WorkerLoop(body func(*Tape) Outcome) {
	worker.active = true
	worker.out = bufio.NewWriter(os.Stdout)
	in := bufio.NewReaderSize(os.Stdin, 1<<20)
	for {
		line, err := in.ReadString('\n')
		if err != nil {
			return
		}
		var req workerReq
		if err := json.Unmarshal([]byte(line), &req); err != nil {
			fmt.Fprintf(worker.out, "E bad request: %v\n", err)
			worker.out.Flush()
			continue
		}
		worker.stack = req.Prefixes
		worker.rep = NewReport()
		worker.bound = req.Bound
		n := 0
		for len(worker.stack) > 0 && n < req.Budget {
			p := worker.stack[len(worker.stack)-1]
			worker.stack = worker.stack[:len(worker.stack)-1]
			worker.current = p
			b, _ := json.Marshal(p)
			fmt.Fprintf(worker.out, "R %s\n", b)
			worker.out.Flush()
			ch := RunOne(p, req.Bound, body, worker.rep)
			worker.stack = append(worker.stack, ch...)
			n++
		}
		flushBatch()
	}
}

func flushBatch(exiting ...bool) {
	b, _ := json.Marshal(workerResp{Report: worker.rep, Leftover: worker.stack, Exiting: len(exiting) > 0})
	fmt.Fprintf(worker.out, "D %s\n", b)
	worker.out.Flush()
}

// Abort is called by a harness body when the current execution cannot be
// unwound (deadlock inside a bubble): the outcome is reported for the current
// tape, the batch is flushed and the process exits.
func Abort(t *Tape, out Outcome) {
	if !worker.active {
		fmt.Printf("ABORT (not a worker): %+v tape=%v\n", out, t.Picks())
		os.Exit(3)
	}
	if out.Sig == "" {
		out.Sig = out.Violation
	}
	devs := 0
	for _, c := range t.Choices {
		if c.Picked != 0 && !c.Free {
			devs++
		}
	}
	worker.rep.Executions++
	worker.rep.Outcomes[out.Obs]++
	worker.rep.addViolation(Found{Tape: t.Picks(), Labels: t.Labels(), Outcome: out, Devs: devs})
	// children of the aborted execution are still to be explored
	d := 0
	for i, c := range t.Choices {
		if i >= len(worker.current) {
			cost := d
			if !c.Free {
				cost++
			}
			if worker.bound < 0 || cost <= worker.bound {
				for alt := c.N - 1; alt >= 1; alt-- {
					ch := append(append([]int{}, t.Picks()[:i]...), alt)
					worker.stack = append(worker.stack, ch)
				}
			}
		}
		if c.Picked != 0 && !c.Free {
			d++
		}
	}
	flushBatch(true)
	os.Exit(3)
}

// ProcConfig configures a multi-process exploration.
type ProcConfig struct {
	Scenario string
	Bound    int
	Procs    int
	Budget   int // executions per batch
	MaxExecs int64
	Deadline time.Duration
	Env      []string
}

// ExploreProcs runs the exploration of one scenario on worker processes
// started from this test binary (VERIF_WORKER=<scenario>).
func ExploreProcs(cfg ProcConfig) *Report {
	start := time.Now()
	total := NewReport()
	if cfg.Procs < 1 {
		cfg.Procs = 1
	}
	if cfg.Budget < 1 {
		cfg.Budget = 200
	}
	var mu sync.Mutex
	cond := sync.NewCond(&mu)
	queue := [][]int{{}}
	inflight := 0
	stopped := false
	crashes := 0
	bin := os.Getenv("VERIF_BIN")
	if bin == "" {
		bin = os.Args[0]
	}
	var wg sync.WaitGroup
	for w := 0; w < cfg.Procs; w++ {
		wg.Add(1)
		go func(w int) {
			defer wg.Done()
			var cmd *exec.Cmd
			var stdin *bufio.Writer
			var stdout *bufio.Reader
			var closer func()
			stderrPath := ""
			defer func() {
				if stderrPath != "" {
					os.Remove(stderrPath)
				}
			}()
			startProc := func() error {
				cmd = exec.Command(bin, "-test.run", "^TestCheck$", "-test.timeout", "0")
				cmd.Env = append(os.Environ(), "VERIF_WORKER="+cfg.Scenario, "GOMAXPROCS=1")
				cmd.Env = append(cmd.Env, cfg.Env...)
				errFile, _ := os.CreateTemp("", "verif-worker-stderr-")
				if errFile != nil {
					cmd.Stderr = errFile
					stderrPath = errFile.Name()
				}
				ip, err := cmd.StdinPipe()
				if err != nil {
					return err
				}
				op, err := cmd.StdoutPipe()
				if err != nil {
					return err
				}
				stdin = bufio.NewWriter(ip)
				stdout = bufio.NewReaderSize(op, 1<<20)
				closer = func() { ip.Close() }
				return cmd.Start()
			}
			stopProc := func() {
				if cmd != nil {
					closer()
					cmd.Wait()
					cmd = nil
				}
			}
			defer stopProc()
			for {
				mu.Lock()
				for len(queue) == 0 && inflight > 0 && !stopped {
					cond.Wait()
				}
				if len(queue) == 0 || stopped {
					mu.Unlock()
					return
				}
				if cfg.MaxExecs > 0 && total.Executions >= cfg.MaxExecs {
					total.Capped = fmt.Sprintf("execution cap %d reached", cfg.MaxExecs)
					stopped = true
					cond.Broadcast()
					mu.Unlock()
					return
				}
				if cfg.Deadline > 0 && time.Since(start) > cfg.Deadline {
					total.Capped = fmt.Sprintf("deadline %s reached", cfg.Deadline)
					stopped = true
					cond.Broadcast()
					mu.Unlock()
					return
				}
				// take a share of the queue (at most 1/procs of it, at least 1)
				n := len(queue) / cfg.Procs
				if n < 1 {
					n = 1
				}
				if n > 64 {
					n = 64
				}
				batch := append([][]int{}, queue[len(queue)-n:]...)
				queue = queue[:len(queue)-n]
				inflight++
				mu.Unlock()

				if cmd == nil {
					if err := startProc(); err != nil {
						mu.Lock()
						total.Errors = append(total.Errors, "cannot start worker: "+err.Error())
						stopped = true
						inflight--
						cond.Broadcast()
						mu.Unlock()
						return
					}
				}
				req, _ := json.Marshal(workerReq{Prefixes: batch, Budget: cfg.Budget, Bound: cfg.Bound})
				stdin.Write(req)
				stdin.WriteByte('\n')
				stdin.Flush()
				var last string
				var resp *workerResp
				var tail []string
				for {
					line, err := stdout.ReadString('\n')
					if len(line) > 2 && line[1] == ' ' {
						switch line[0] {
						case 'R':
							last = strings.TrimSpace(line[2:])
							continue
						case 'D':
							var r workerResp
							if json.Unmarshal([]byte(line[2:]), &r) == nil {
								resp = &r
							}
						}
					} else if line != "" {
						tail = append(tail, strings.TrimRight(line, "\n"))
						if len(tail) > 30 {
							tail = tail[1:]
						}
					}
					if resp != nil || err != nil {
						break
					}
				}
				mu.Lock()
				inflight--
				if resp != nil {
					total.merge(resp.Report)
					if !stopped {
						queue = append(queue, resp.Leftover...)
					}
				}
				mu.Unlock()
				if resp == nil {
					// the worker died inside an execution: attribute it to the announced prefix
					stopProc()
					var tape []int
					json.Unmarshal([]byte(last), &tape)
					if b, err := os.ReadFile(stderrPath); err == nil {
						lines := strings.Split(string(b), "\n")
						for _, l := range lines {
							if strings.HasPrefix(l, "panic:") || strings.HasPrefix(l, "fatal error:") {
								tail = append([]string{l}, tail...)
								break
							}
						}
					}
					mu.Lock()
					total.Executions++
					crashes++
					if crashes >= 3 && !stopped {
						// the crash is established and replayable; a process restart per crashing execution is not worth the time
						total.Capped = "stopped after 3 crashed executions"
						stopped = true
					}
					total.addViolation(Found{Tape: tape, Labels: []string{"(worker crashed; tape = announced prefix followed by default choices)"},
						Outcome: Outcome{Violation: "the process crashed (panic or fatal error) during this execution", Sig: crashSig(tail), Detail: strings.Join(tail, "\n")}})
					// the rest of the batch is lost with the worker: re-queue everything but the crashed prefix
					for _, p := range batch {
						if fmt.Sprint(p) != fmt.Sprint(tape) {
							queue = append(queue, p)
						}
					}
					cond.Broadcast()
					mu.Unlock()
					continue
				}
				// a worker that exited after Abort (deadlock) must be restarted
				if resp.Exiting {
					stopProc()
					mu.Lock()
					crashes++
					if crashes >= 3 && !stopped {
						total.Capped = "stopped after 3 executions that could not be unwound (deadlock inside a bubble)"
						stopped = true
					}
					mu.Unlock()
				}
				mu.Lock()
				cond.Broadcast()
				mu.Unlock()
			}
		}(w)
	}
	wg.Wait()
	if total.Capped != "" || total.Diverged > 0 {
		total.Exhaustive = false
	}
	// a violation is reported only if its tape reproduces it twice in fresh worker processes
	var confirmed []Found
	for _, f := range total.Violations {
		ok := 0
		for i := 0; i < 2; i++ {
			if sig, done := replayInWorker(bin, cfg, f.Tape); done && sameClass(sig, f.Outcome.Sig) {
				ok++
			}
		}
		if ok == 2 {
			confirmed = append(confirmed, f)
		} else {
			total.Unconfirmed++
		}
	}
	total.Violations = confirmed
	total.Wall = time.Since(start)
	return total
}

func sameClass(a, b string) bool {
	if strings.HasPrefix(a, "crash") && strings.HasPrefix(b, "crash") {
		return true
	}
	return a == b
}

// replayInWorker runs exactly one execution (the given tape) in a fresh worker
// and returns the signature of the violation it shows ("" if none).
func replayInWorker(bin string, cfg ProcConfig, tape []int) (string, bool) {
	cmd := exec.Command(bin, "-test.run", "^TestCheck$", "-test.timeout", "0")
	cmd.Env = append(os.Environ(), "VERIF_WORKER="+cfg.Scenario, "GOMAXPROCS=1")
	cmd.Env = append(cmd.Env, cfg.Env...)
	ip, err := cmd.StdinPipe()
	if err != nil {
		return "", false
	}
	op, err := cmd.StdoutPipe()
	if err != nil {
		return "", false
	}
	if err := cmd.Start(); err != nil {
		return "", false
	}
	req, _ := json.Marshal(workerReq{Prefixes: [][]int{tape}, Budget: 1, Bound: 0})
	ip.Write(append(req, '\n'))
	rd := bufio.NewReaderSize(op, 1<<20)
	var resp *workerResp
	done := make(chan struct{})
	go func() {
		defer close(done)
		for {
			line, err := rd.ReadString('\n')
			if len(line) > 2 && line[0] == 'D' && line[1] == ' ' {
				var r workerResp
				if json.Unmarshal([]byte(line[2:]), &r) == nil {
					resp = &r
				}
				return
			}
			if err != nil {
				return
			}
		}
	}()
	select {
	case <-done:
	case <-time.After(120 * time.Second):
		cmd.Process.Kill()
		<-done
		ip.Close()
		cmd.Wait()
		return "", false
	}
	ip.Close()
	cmd.Wait()
	if resp == nil {
		return "crash", true
	}
	if resp.Report != nil && resp.Report.Diverged > 0 {
		return "", false
	}
	if resp.Report != nil && len(resp.Report.Violations) > 0 {
		return resp.Report.Violations[0].Outcome.Sig, true
	}
	return "", true
}

// crashSig derives a stable signature from the panic line of a crashed worker.
func crashSig(tail []string) string {
	for _, l := range tail {
		if strings.HasPrefix(l, "panic:") || strings.HasPrefix(l, "fatal error:") {
			l = strings.SplitN(l, " [recovered", 2)[0]
			if len(l) > 90 {
				l = l[:90]
			}
			return "crash:" + l
		}
	}
	return "crash"
}
