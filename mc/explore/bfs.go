package explore

import (
	"fmt"
	"sort"
	"sync"
	"time"
)

// StepResult is what a sequence harness reports after replaying a sequence of
// operations on a fresh instance of the real object.
type StepResult struct {
	Skip      bool   // last operation not applicable in this state (no transition)
	State     string // canonical state of the real object after the last operation
	Violation string
	Sig       string
	Detail    string
	Obs       string // optional outcome class of the last operation
	// Soft* report a violation that must not stop the search below this state
	// (used for findings that are already known, so that what lies behind
	// them is still explored with the remaining oracles).
	SoftViolation, SoftSig, SoftDetail string
}

// BFSConfig bounds an explicit-state search over operation sequences.
type BFSConfig struct {
	Ops      int // alphabet size
	Depth    int // max sequence length
	Workers  int
	Deadline time.Duration
	MaxTrans int64
	OpName   func(int) string
}

// BFSReport is the result of an explicit-state search.
type BFSReport struct {
	States      int64
	Transitions int64 // sequences executed (each = one new transition on a replayed path)
	StepsRun    int64 // total operations executed including replays
	Depth       int   // depth fully completed
	PerDepth    []int64
	Outcomes    map[string]int64
	Violations  []BFSFound
	Exhaustive  bool
	Capped      string
	Samples     [][]string
	Wall        time.Duration
	// Unconfirmed counts violations that did not occur again when the same
	// sequence was run twice more on fresh instances (the harnesses are
	// deterministic: such a result is an environment fault, it is reported in
	// the evidence and not as a violation).
	Unconfirmed      int64
	FirstUnconfirmed string
}

// BFSFound is a violating operation sequence.
type BFSFound struct {
	Seq    []int
	Names  []string
	Result StepResult
}

// BFS explores operation sequences breadth first. run(seq) must build a fresh
// instance, apply seq (checking its oracle after every step or at least after
// the last) and return the canonical state after the last operation. A
// sequence whose end state was already reached by a shorter or equal sequence
// is not extended. The initial state is run(nil).
func BFS(cfg BFSConfig, run func(seq []int) StepResult) *BFSReport {
	start := time.Now()
	rep := &BFSReport{Outcomes: map[string]int64{}, Exhaustive: true}
	name := func(seq []int) []string {
		out := make([]string, len(seq))
		for i, o := range seq {
			if cfg.OpName != nil {
				out[i] = cfg.OpName(o)
			} else {
				out[i] = fmt.Sprint(o)
			}
		}
		return out
	}
	seen := map[string]bool{}
	init := run(nil)
	seen[init.State] = true
	rep.States = 1
	if init.Violation != "" {
		rep.Violations = append(rep.Violations, BFSFound{Result: init})
	}
	frontier := [][]int{{}}
	workers := cfg.Workers
	if workers < 1 {
		workers = 1
	}
	var mu sync.Mutex
	addViol := func(f BFSFound) {
		if f.Result.Sig == "" {
			f.Result.Sig = f.Result.Violation
		}
		for _, g := range rep.Violations {
			if g.Result.Sig == f.Result.Sig {
				return
			}
		}
		rep.Violations = append(rep.Violations, f)
	}
	for depth := 1; depth <= cfg.Depth && len(frontier) > 0; depth++ {
		type job struct {
			seq []int
		}
		type res struct {
			seq []int
			r   StepResult
		}
		jobs := make(chan job, 1024)
		results := make([]res, 0, len(frontier)*cfg.Ops)
		var wg sync.WaitGroup
		stop := false
		for w := 0; w < workers; w++ {
			wg.Add(1)
			go func() {
				defer wg.Done()
				for j := range jobs {
					r := run(j.seq)
					if r.Violation != "" {
						// the same sequence must fail the same way again
						r2 := run(j.seq)
						if r2.Sig != r.Sig {
							r3 := run(j.seq)
							if r3.Sig != r.Sig {
								mu.Lock()
								rep.Unconfirmed++
								if rep.FirstUnconfirmed == "" {
									rep.FirstUnconfirmed = fmt.Sprintf("%v: %s: %.300s", name(j.seq), r.Sig, r.Violation)
								}
								mu.Unlock()
								r = r2
							}
						}
					}
					mu.Lock()
					results = append(results, res{j.seq, r})
					mu.Unlock()
				}
			}()
		}
		var issued int64
	feed:
		for _, p := range frontier {
			for op := 0; op < cfg.Ops; op++ {
				if cfg.Deadline > 0 && time.Since(start) > cfg.Deadline {
					rep.Capped = fmt.Sprintf("deadline %s reached at depth %d", cfg.Deadline, depth)
					stop = true
					break feed
				}
				if cfg.MaxTrans > 0 && rep.Transitions+issued >= cfg.MaxTrans {
					rep.Capped = fmt.Sprintf("transition cap %d reached at depth %d", cfg.MaxTrans, depth)
					stop = true
					break feed
				}
				seq := make([]int, len(p)+1)
				copy(seq, p)
				seq[len(p)] = op
				jobs <- job{seq}
				issued++
			}
		}
		close(jobs)
		wg.Wait()
		// deterministic merge order
		sort.Slice(results, func(i, j int) bool { return lessSeq(results[i].seq, results[j].seq) })
		var next [][]int
		var newStates int64
		for _, r := range results {
			rep.StepsRun += int64(len(r.seq))
			if r.r.Skip {
				continue
			}
			rep.Transitions++
			if r.r.Obs != "" {
				rep.Outcomes[r.r.Obs]++
			}
			if r.r.Violation != "" {
				addViol(BFSFound{Seq: r.seq, Names: name(r.seq), Result: r.r})
				continue // do not extend a violating state
			}
			if r.r.SoftViolation != "" {
				sr := r.r
				sr.Violation, sr.Sig, sr.Detail = sr.SoftViolation, sr.SoftSig, sr.SoftDetail
				addViol(BFSFound{Seq: r.seq, Names: name(r.seq), Result: sr})
			}
			if !seen[r.r.State] {
				seen[r.r.State] = true
				newStates++
				next = append(next, r.seq)
				if len(rep.Samples) < 3 && (newStates == 1 || newStates%53 == 0) {
					rep.Samples = append(rep.Samples, name(r.seq))
				}
			}
		}
		rep.States += newStates
		rep.PerDepth = append(rep.PerDepth, newStates)
		if stop {
			rep.Exhaustive = false
			break
		}
		rep.Depth = depth
		frontier = next
	}
	rep.Wall = time.Since(start)
	return rep
}

func lessSeq(a, b []int) bool {
	for i := 0; i < len(a) && i < len(b); i++ {
		if a[i] != b[i] {
			return a[i] < b[i]
		}
	}
	return len(a) < len(b)
}

// Guard runs f and returns its result, or a "hang" violation if f does not
// finish within d of real time (d is chosen three orders of magnitude above
// the normal duration of f; a hung f keeps its goroutine, which is reported,
// not hidden).
func Guard(d time.Duration, f func() StepResult) StepResult {
	ch := make(chan StepResult, 1)
	go func() { ch <- f() }()
	select {
	case r := <-ch:
		return r
	case <-time.After(d):
		return StepResult{Violation: fmt.Sprintf("the operation sequence did not finish within %s (normal duration: tens of milliseconds): an operation hangs", d), Sig: "hang"}
	}
}
