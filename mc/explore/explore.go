// Package explore is the stateless choice-tape explorer: it enumerates every
// execution of a deterministic harness body within a deviation bound by depth
// first re-execution. A body calls Tape.Choose wherever something is not
// determined; choice 0 is the default (free of cost), every other choice costs
// one deviation unless the point is declared free.
package explore

import (
	"fmt"
	"sync"
	"sync/atomic"
	"time"
)

// Choice is one recorded choice point of an execution.
type Choice struct {
	N      int    // number of alternatives offered
	Picked int    // alternative taken
	Free   bool   // alternatives at this point cost nothing
	Label  string // what was chosen (for replay validation and readable traces)
}

// Tape feeds a forced prefix of choices to a body and records all choices.
type Tape struct {
	prefix  []int
	Choices []Choice
	Err     error // set on replay divergence (out of range forced choice)
}

// NewTape returns a tape that forces the given prefix and picks 0 afterwards.
func NewTape(prefix []int) *Tape { return &Tape{prefix: prefix} }

func (t *Tape) choose(n int, label string, free bool) int {
	if n <= 0 {
		panic("explore: Choose with n <= 0: " + label)
	}
	pick := 0
	if i := len(t.Choices); i < len(t.prefix) {
		pick = t.prefix[i]
		if pick >= n {
			if t.Err == nil {
				t.Err = fmt.Errorf("replay divergence at choice %d (%s): forced %d of %d", i, label, pick, n)
			}
			pick = 0
		}
	}
	t.Choices = append(t.Choices, Choice{N: n, Picked: pick, Free: free, Label: label})
	return pick
}

// Choose offers n alternatives; a non-zero pick costs one deviation.
func (t *Tape) Choose(n int, label string) int { return t.choose(n, label, false) }

// ChooseFree offers n alternatives that cost nothing (fully enumerated).
func (t *Tape) ChooseFree(n int, label string) int { return t.choose(n, label, true) }

// Picks returns the picks of the execution so far.
func (t *Tape) Picks() []int {
	p := make([]int, len(t.Choices))
	for i, c := range t.Choices {
		p[i] = c.Picked
	}
	return p
}

// Labels returns "label=pick/n" strings for a readable trace.
func (t *Tape) Labels() []string {
	p := make([]string, len(t.Choices))
	for i, c := range t.Choices {
		p[i] = fmt.Sprintf("%s=%d/%d", c.Label, c.Picked, c.N)
	}
	return p
}

// Outcome is what one execution reports.
type Outcome struct {
	Violation string // empty = property held on this execution
	Sig       string // stable signature of the violation (known-finding key)
	Obs       string // observable outcome signature (distinct outcome counting)
	Steps     int    // transitions / scheduling steps executed
	Detail    string // human readable detail for the replay file
}

// Config bounds an exploration.
type Config struct {
	Bound    int           // max deviations per execution; <0 = unbounded
	MaxExecs int64         // stop after this many executions (0 = no cap)
	Deadline time.Duration // stop after this long (0 = none)
	Workers  int           // in-process parallel workers (<=1 = sequential)
}

// Found is a violating execution.
type Found struct {
	Tape    []int
	Labels  []string
	Outcome Outcome
	Devs    int
}

// Report is the merged result of an exploration.
type Report struct {
	Executions      int64
	ChoicePoints    int64
	Steps           int64
	MaxDepth        int
	Nodes           int64 // distinct decision-tree nodes visited (= executions + inner points)
	Outcomes        map[string]int64
	Violations      []Found // at most one per signature, fewest deviations first seen
	Exhaustive      bool
	Capped          string
	Samples         [][]string
	Errors          []string
	Diverged        int64 // executions that did not follow their forced prefix (subtree skipped)
	FirstDivergence string
	Unconfirmed     int64 // violations that did not reproduce when their tape was replayed
	Wall            time.Duration
}

func (r *Report) merge(o *Report) {
	r.Executions += o.Executions
	r.ChoicePoints += o.ChoicePoints
	r.Steps += o.Steps
	r.Nodes += o.Nodes
	if o.MaxDepth > r.MaxDepth {
		r.MaxDepth = o.MaxDepth
	}
	for k, v := range o.Outcomes {
		r.Outcomes[k] += v
	}
	for _, f := range o.Violations {
		r.addViolation(f)
	}
	r.Errors = append(r.Errors, o.Errors...)
	r.Diverged += o.Diverged
	if r.FirstDivergence == "" {
		r.FirstDivergence = o.FirstDivergence
	}
	for _, s := range o.Samples {
		if len(r.Samples) < 3 {
			r.Samples = append(r.Samples, s)
		}
	}
}

func (r *Report) addViolation(f Found) {
	for i, g := range r.Violations {
		if g.Outcome.Sig == f.Outcome.Sig {
			if f.Devs < g.Devs || (f.Devs == g.Devs && len(f.Tape) < len(g.Tape)) {
				r.Violations[i] = f
			}
			return
		}
	}
	r.Violations = append(r.Violations, f)
}

// NewReport returns an empty report.
func NewReport() *Report { return &Report{Outcomes: map[string]int64{}, Exhaustive: true} }

// RunOne executes body once on the given prefix and returns the children
// prefixes (alternatives at positions >= len(prefix) within the bound).
func RunOne(prefix []int, bound int, body func(*Tape) Outcome, rep *Report) (children [][]int) {
	t := NewTape(prefix)
	out := body(t)
	if t.Err != nil {
		// the execution did not follow its prefix (nondeterminism the harness does not own, e.g. completion
		// order of file I/O in goroutines of the code under test): the subtree is skipped and counted
		rep.Diverged++
		if rep.FirstDivergence == "" {
			rep.FirstDivergence = t.Err.Error()
		}
		return nil
	}
	rep.Executions++
	rep.ChoicePoints += int64(len(t.Choices))
	rep.Nodes += int64(len(t.Choices)-len(prefix)) + 1
	rep.Steps += int64(out.Steps)
	if len(t.Choices) > rep.MaxDepth {
		rep.MaxDepth = len(t.Choices)
	}
	rep.Outcomes[out.Obs]++
	devs := 0
	for _, c := range t.Choices {
		if c.Picked != 0 && !c.Free {
			devs++
		}
	}
	if out.Violation != "" {
		if out.Sig == "" {
			out.Sig = out.Violation
		}
		rep.addViolation(Found{Tape: t.Picks(), Labels: t.Labels(), Outcome: out, Devs: devs})
	}
	if len(rep.Samples) < 3 && (rep.Executions == 1 || rep.Executions%97 == 0) {
		rep.Samples = append(rep.Samples, append(t.Labels(), "=> "+out.Obs))
	}
	// children: deviations before position i
	d := 0
	for i := 0; i < len(t.Choices); i++ {
		c := t.Choices[i]
		if i >= len(prefix) {
			cost := d
			if !c.Free {
				cost++
			}
			if bound < 0 || cost <= bound {
				for alt := c.N - 1; alt >= 1; alt-- {
					ch := make([]int, i+1)
					copy(ch, t.Picks()[:i])
					ch[i] = alt
					children = append(children, ch)
				}
			}
		}
		if c.Picked != 0 && !c.Free {
			d++
		}
	}
	return children
}

// Explore enumerates all executions of body within cfg (in-process).
func Explore(cfg Config, body func(*Tape) Outcome) *Report {
	start := time.Now()
	rep := NewReport()
	var mu sync.Mutex
	stack := [][]int{{}}
	inflight := 0
	stopped := false
	var execs int64
	var capped atomic.Value
	workers := cfg.Workers
	if workers < 1 {
		workers = 1
	}
	cond := sync.NewCond(&mu)
	var wg sync.WaitGroup
	for w := 0; w < workers; w++ {
		wg.Add(1)
		go func() {
			defer wg.Done()
			local := NewReport()
			for {
				mu.Lock()
				for len(stack) == 0 && inflight > 0 {
					cond.Wait()
				}
				if len(stack) == 0 || stopped {
					mu.Unlock()
					break
				}
				if cfg.MaxExecs > 0 && atomic.LoadInt64(&execs) >= cfg.MaxExecs {
					capped.Store(fmt.Sprintf("execution cap %d reached", cfg.MaxExecs))
					stack, stopped = nil, true
					cond.Broadcast()
					mu.Unlock()
					break
				}
				if cfg.Deadline > 0 && time.Since(start) > cfg.Deadline {
					capped.Store(fmt.Sprintf("deadline %s reached", cfg.Deadline))
					stack, stopped = nil, true
					cond.Broadcast()
					mu.Unlock()
					break
				}
				p := stack[len(stack)-1]
				stack = stack[:len(stack)-1]
				inflight++
				mu.Unlock()
				atomic.AddInt64(&execs, 1)
				ch := RunOne(p, cfg.Bound, body, local)
				mu.Lock()
				inflight--
				if !stopped {
					stack = append(stack, ch...)
				}
				cond.Broadcast()
				mu.Unlock()
			}
			mu.Lock()
			rep.merge(local)
			mu.Unlock()
		}()
	}
	wg.Wait()
	if c := capped.Load(); c != nil {
		rep.Exhaustive = false
		rep.Capped = c.(string)
	}
	if len(rep.Errors) > 0 {
		rep.Exhaustive = false
	}
	rep.Wall = time.Since(start)
	return rep
}

// Replay runs body once on a fixed tape.
func Replay(tape []int, body func(*Tape) Outcome) (Outcome, *Tape) {
	t := NewTape(tape)
	out := body(t)
	return out, t
}
