// Package report writes evidence files, replay files and the VIOLATION /
// KNOWN-FINDING lines of the check interface.
package report

import (
	"bufio"
	"crypto/sha1"
	"encoding/hex"
	"encoding/json"
	"fmt"
	"os"
	"path/filepath"
	"sort"
	"strconv"
	"strings"
	"sync"
	"time"

	"verif/mc/explore"
)

// Root is the verification directory.
var Root = func() string {
	if r := os.Getenv("VERIF_ROOT"); r != "" {
		return r
	}
	return "/verif"
}()

// Out is where evidence/ and replays/ are written (VERIF_OUT overrides it for
// trial runs against seeded changes, so that registered evidence is not touched).
var Out = func() string {
	if r := os.Getenv("VERIF_OUT"); r != "" {
		return r
	}
	return Root
}()

// Finding is one line of known_findings.jsonl.
type Finding struct {
	Property string `json:"property"`
	Key      string `json:"key"`
	Status   string `json:"status"` // known | fixed
	Commit   string `json:"commit,omitempty"`
	What     string `json:"what"`
}

// Check accumulates the result of one property check.
type Check struct {
	ID, Tier, Level string
	Seed            int
	start           time.Time
	mu              sync.Mutex
	known           []Finding
	parts           map[string]map[string]any
	order           []string
	samples         []any
	evals           int64
	states          int64
	trans           int64
	traces          int64
	distinct        map[string]bool
	exhaustive      bool
	caps            []string
	newViol         int
	knownSeen       map[string]bool
	reported        map[string]bool
	internalErr     []string
	Assumptions     []string
	Rule            string
}

// Tier returns the requested tier.
func Tier() string {
	if t := os.Getenv("VERIF_TIER"); t == "thorough" {
		return "thorough"
	}
	return "quick"
}

// Begin starts a check.
func Begin(id, level string) *Check {
	c := &Check{ID: id, Tier: Tier(), Level: level, start: time.Now(), parts: map[string]map[string]any{},
		distinct: map[string]bool{}, exhaustive: true, knownSeen: map[string]bool{}, reported: map[string]bool{}}
	c.Seed, _ = strconv.Atoi(os.Getenv("VERIF_SEED"))
	f, err := os.Open(filepath.Join(Root, "known_findings.jsonl"))
	if err == nil {
		sc := bufio.NewScanner(f)
		sc.Buffer(make([]byte, 1<<20), 1<<20)
		for sc.Scan() {
			line := strings.TrimSpace(sc.Text())
			if line == "" || strings.HasPrefix(line, "#") {
				continue
			}
			var k Finding
			if json.Unmarshal([]byte(line), &k) == nil && k.Property == id {
				c.known = append(c.known, k)
			}
		}
		f.Close()
	}
	return c
}

// Thorough reports whether the thorough tier was requested.
func (c *Check) Thorough() bool { return c.Tier == "thorough" }

// Pick returns q for the quick tier and t for the thorough tier.
func (c *Check) Pick(q, t int) int {
	if c.Thorough() {
		return t
	}
	return q
}

// Violation reports one violation with a stable signature. The replay value is
// written to /verif/replays. Known findings (status known) are downgraded.
func (c *Check) Violation(sig, what string, replay any) {
	c.mu.Lock()
	defer c.mu.Unlock()
	if c.reported[sig] {
		return
	}
	c.reported[sig] = true
	for _, k := range c.known {
		if k.Status == "known" && k.Key == sig {
			c.knownSeen[sig] = true
			fmt.Printf("KNOWN-FINDING: property=%s %s [%s]\n", c.ID, k.What, sig)
			return
		}
	}
	h := sha1.Sum([]byte(sig))
	dir := filepath.Join(Out, "replays")
	os.MkdirAll(dir, 0o755)
	path := filepath.Join(dir, fmt.Sprintf("%s-%s.json", c.ID, hex.EncodeToString(h[:6])))
	b, _ := json.MarshalIndent(map[string]any{"property": c.ID, "signature": sig, "what": what, "replay": replay, "tier": c.Tier}, "", " ")
	os.WriteFile(path, b, 0o644)
	c.newViol++
	fmt.Printf("VIOLATION property=%s replay=%s\n", c.ID, path)
	fmt.Printf("  signature: %s\n  what: %s\n", sig, what)
}

// InternalError records a harness/machinery error (exit 2, never a VIOLATION).
func (c *Check) InternalError(format string, a ...any) {
	c.mu.Lock()
	defer c.mu.Unlock()
	msg := fmt.Sprintf(format, a...)
	c.internalErr = append(c.internalErr, msg)
	fmt.Printf("INTERNAL-ERROR property=%s %s\n", c.ID, msg)
}

func (c *Check) part(name string) map[string]any {
	if p, ok := c.parts[name]; ok {
		return p
	}
	p := map[string]any{}
	c.parts[name] = p
	c.order = append(c.order, name)
	return p
}

// AddExplore merges a stateless exploration into the check.
func (c *Check) AddExplore(name string, r *explore.Report, replayCfg any) {
	for _, f := range r.Violations {
		c.Violation(f.Outcome.Sig, f.Outcome.Violation+" "+f.Outcome.Detail, map[string]any{"scenario": name, "config": replayCfg, "tape": f.Tape, "labels": f.Labels, "deviations": f.Devs})
	}
	for _, e := range r.Errors {
		c.InternalError("%s: %s", name, e)
	}
	c.mu.Lock()
	defer c.mu.Unlock()
	p := c.part(name)
	p["executions"] = r.Executions
	p["choice_points"] = r.ChoicePoints
	p["tree_nodes"] = r.Nodes
	p["steps"] = r.Steps
	p["max_depth"] = r.MaxDepth
	p["distinct_outcomes"] = len(r.Outcomes)
	p["exhaustive"] = r.Exhaustive
	p["wall_s"] = r.Wall.Seconds()
	if r.Capped != "" {
		p["capped"] = r.Capped
		c.caps = append(c.caps, name+": "+r.Capped)
	}
	if r.Diverged > 0 {
		p["subtrees_skipped_replay_divergence"] = r.Diverged
		p["first_divergence"] = r.FirstDivergence
		c.caps = append(c.caps, fmt.Sprintf("%s: %d subtrees skipped (execution did not follow its prefix)", name, r.Diverged))
	}
	if r.Unconfirmed > 0 {
		p["violations_not_reproduced_on_replay"] = r.Unconfirmed
	}
	if !r.Exhaustive {
		c.exhaustive = false
	}
	c.evals += r.Executions
	c.states += r.Nodes
	c.trans += r.Steps + r.ChoicePoints
	c.traces += r.Executions
	for k := range r.Outcomes {
		c.distinct[name+"|"+k] = true
	}
	for _, s := range r.Samples {
		if len(c.samples) < 8 {
			c.samples = append(c.samples, map[string]any{"scenario": name, "trace": s})
		}
	}
}

// AddBFS merges an explicit-state search into the check.
func (c *Check) AddBFS(name string, r *explore.BFSReport, replayCfg any) {
	for _, f := range r.Violations {
		c.Violation(f.Result.Sig, f.Result.Violation+" "+f.Result.Detail, map[string]any{"scenario": name, "config": replayCfg, "seq": f.Seq, "ops": f.Names})
	}
	c.mu.Lock()
	defer c.mu.Unlock()
	p := c.part(name)
	p["states"] = r.States
	p["transitions"] = r.Transitions
	p["ops_executed_incl_replay"] = r.StepsRun
	p["depth_completed"] = r.Depth
	p["new_states_per_depth"] = r.PerDepth
	p["exhaustive"] = r.Exhaustive
	p["wall_s"] = r.Wall.Seconds()
	if r.Unconfirmed > 0 {
		p["violations_not_reproduced_on_rerun"] = r.Unconfirmed
		p["first_not_reproduced"] = r.FirstUnconfirmed
	}
	if r.Capped != "" {
		p["capped"] = r.Capped
		c.caps = append(c.caps, name+": "+r.Capped)
	}
	if !r.Exhaustive {
		c.exhaustive = false
	}
	c.evals += r.Transitions
	c.states += r.States
	c.trans += r.Transitions
	c.traces += r.Transitions
	for k := range r.Outcomes {
		c.distinct[name+"|"+k] = true
	}
	for _, s := range r.Samples {
		if len(c.samples) < 8 {
			c.samples = append(c.samples, map[string]any{"scenario": name, "ops": s})
		}
	}
}

// AddCount merges a plain enumeration (inputs, images, scenarios).
func (c *Check) AddCount(name string, evaluations int64, distinct map[string]bool, exhaustive bool, extra map[string]any, samples ...any) {
	c.mu.Lock()
	defer c.mu.Unlock()
	p := c.part(name)
	p["evaluations"] = evaluations
	p["distinct"] = len(distinct)
	p["exhaustive"] = exhaustive
	for k, v := range extra {
		p[k] = v
	}
	if !exhaustive {
		c.exhaustive = false
	}
	c.evals += evaluations
	c.states += int64(len(distinct))
	c.trans += evaluations
	c.traces += evaluations
	for k := range distinct {
		c.distinct[name+"|"+k] = true
	}
	for _, s := range samples {
		if len(c.samples) < 10 {
			c.samples = append(c.samples, map[string]any{"scenario": name, "case": s})
		}
	}
}

// Finish writes the evidence file and returns the process exit code.
func (c *Check) Finish() int {
	c.mu.Lock()
	defer c.mu.Unlock()
	cov := map[string]any{
		"evaluations":         c.evals,
		"distinct_nontrivial": len(c.distinct),
		"rule":                c.Rule,
		"samples":             c.samples,
		"exhaustive":          c.exhaustive,
		"parts":               c.parts,
	}
	if c.Level == "model_checking" {
		cov["states"] = c.states
		cov["transitions"] = c.trans
		cov["traces_validated_against_impl"] = c.traces
	}
	if len(c.caps) > 0 {
		cov["caps_hit"] = c.caps
	}
	var kf []string
	for k := range c.knownSeen {
		kf = append(kf, k)
	}
	sort.Strings(kf)
	cov["known_findings_observed"] = kf
	if len(c.samples) == 0 {
		cov["samples"] = []any{"(no sample recorded)"}
	}
	ev := map[string]any{
		"property_id": c.ID,
		"tier":        c.Tier,
		"seed":        c.Seed,
		"level":       c.Level,
		"coverage":    cov,
		"assumptions": c.Assumptions,
		"wall_s":      time.Since(c.start).Seconds(),
		"violations":  c.newViol,
	}
	if c.Assumptions == nil {
		ev["assumptions"] = []string{}
	}
	b, _ := json.MarshalIndent(ev, "", " ")
	os.MkdirAll(filepath.Join(Out, "evidence"), 0o755)
	if err := os.WriteFile(filepath.Join(Out, "evidence", c.ID+".json"), b, 0o644); err != nil {
		fmt.Printf("INTERNAL-ERROR property=%s cannot write evidence: %v\n", c.ID, err)
		return 2
	}
	fmt.Printf("SUMMARY property=%s tier=%s evaluations=%d distinct=%d states=%d transitions=%d exhaustive=%v violations=%d known=%d wall=%.1fs\n",
		c.ID, c.Tier, c.evals, len(c.distinct), c.states, c.trans, c.exhaustive, c.newViol, len(c.knownSeen), time.Since(c.start).Seconds())
	if c.newViol > 0 {
		return 1
	}
	if len(c.internalErr) > 0 {
		return 2
	}
	if len(c.distinct) < 2 {
		fmt.Printf("INTERNAL-ERROR property=%s vacuous run: fewer than 2 distinct outcomes\n", c.ID)
		return 2
	}
	return 0
}

// LoadTape reads the tape of a replay file written by Violation.
func LoadTape(path string) ([]int, error) {
	b, err := os.ReadFile(path)
	if err != nil {
		return nil, err
	}
	var v struct {
		Replay struct {
			Tape []int `json:"tape"`
			Seq  []int `json:"seq"`
		} `json:"replay"`
	}
	if err := json.Unmarshal(b, &v); err != nil {
		return nil, err
	}
	if v.Replay.Tape != nil {
		return v.Replay.Tape, nil
	}
	return v.Replay.Seq, nil
}

// ExitCode is set by a harness' TestCheck and used by Main.
var ExitCode int

// Main is the TestMain of every harness: exit 0 held, 1 violation, 2 internal.
func Main(run func() int) {
	code := run()
	if ExitCode != 0 {
		code = ExitCode
	} else if code != 0 {
		code = 2
	}
	os.Exit(code)
}

// LoadInput reads the "input" string of a replay file written by Violation.
func LoadInput(path string) (string, error) {
	b, err := os.ReadFile(path)
	if err != nil {
		return "", err
	}
	var v struct {
		Replay struct {
			Input string `json:"input"`
		} `json:"replay"`
	}
	if err := json.Unmarshal(b, &v); err != nil {
		return "", err
	}
	return v.Replay.Input, nil
}

// Replay is the decoded content of a replay file.
type Replay struct {
	Scenario string
	Config   map[string]string
	Tape     []int
	Seq      []int
	Input    string
}

// LoadReplay reads a replay file written by Violation.
func LoadReplay(path string) (*Replay, error) {
	b, err := os.ReadFile(path)
	if err != nil {
		return nil, err
	}
	var v struct {
		Replay struct {
			Scenario string         `json:"scenario"`
			Config   map[string]any `json:"config"`
			Tape     []int          `json:"tape"`
			Seq      []int          `json:"seq"`
			Input    string         `json:"input"`
		} `json:"replay"`
	}
	if err := json.Unmarshal(b, &v); err != nil {
		return nil, err
	}
	r := &Replay{Scenario: v.Replay.Scenario, Tape: v.Replay.Tape, Seq: v.Replay.Seq, Input: v.Replay.Input, Config: map[string]string{}}
	for k, x := range v.Replay.Config {
		r.Config[k] = fmt.Sprint(x)
	}
	return r, nil
}
