// vinstr generates the `go build -overlay` file for one harness: it injects
// export files (build tag verif) and virtual shim packages into the repository
// tree and rewrites imports (sync -> vsync/vsyncq, math/rand -> vrand, the
// repository's tcp package -> vtcp) in copies of the repository's files. The
// repository itself is never modified. Rewritten copies are regenerated from
// the current contents of the repository on every run (content addressed).
package main

import (
	"crypto/sha1"
	"encoding/hex"
	"encoding/json"
	"flag"
	"fmt"
	"go/ast"
	"go/parser"
	"go/token"
	"os"
	"path/filepath"
	"sort"
	"strconv"
	"strings"
)

type desc struct {
	Exports []string            `json:"exports"` // repo-relative package dirs with files under /verif/export/<dir>/
	Shims   []string            `json:"shims"`   // virtual packages under /verif/shim/<name> -> <repo>/pkg/<name>
	Focus   []string            `json:"focus"`   // package dirs whose "sync" import becomes vsync (scheduling points)
	Quiet   []string            `json:"quiet"`   // package dirs (or "*") whose "sync" import becomes vsyncq
	Rewrite map[string][]string `json:"rewrite"` // file or dir -> ["old=new", ...] extra import rewrites
	// MapRange: file -> names of map variables whose `for k, v := range name` loops iterate in an order owned by pkg/vrange.
	MapRange map[string][]string `json:"maprange"`
}

const mod = "github.com/influxdata/influxdb"

func main() {
	repo := flag.String("repo", "/repo", "repository root")
	root := flag.String("root", "/verif", "verification root")
	harness := flag.String("harness", "", "harness directory (contains verif.json)")
	out := flag.String("out", "", "overlay file to write")
	flag.Parse()
	var d desc
	if b, err := os.ReadFile(filepath.Join(*root, *harness, "verif.json")); err == nil {
		if err := json.Unmarshal(b, &d); err != nil {
			fatal("verif.json: %v", err)
		}
	}
	replace := map[string]string{}
	cache := filepath.Join(*root, ".cache", "ovfiles")
	os.MkdirAll(cache, 0o755)

	for _, e := range d.Exports {
		files, _ := filepath.Glob(filepath.Join(*root, "export", e, "*.go"))
		if len(files) == 0 {
			fatal("no export files for %s", e)
		}
		for _, f := range files {
			replace[filepath.Join(*repo, e, filepath.Base(f))] = f
		}
	}
	for _, s := range d.Shims {
		files, _ := filepath.Glob(filepath.Join(*root, "shim", s, "*.go"))
		if len(files) == 0 {
			fatal("no shim files for %s", s)
		}
		for _, f := range files {
			replace[filepath.Join(*repo, "pkg", s, filepath.Base(f))] = f
		}
	}

	// import rewrites per file
	rw := map[string]map[string]string{} // abs file -> old import -> new import
	add := func(file, old, new string) {
		if rw[file] == nil {
			rw[file] = map[string]string{}
		}
		if _, ok := rw[file][old]; !ok {
			rw[file][old] = new
		}
	}
	goFiles := func(dir string) []string {
		fs, _ := filepath.Glob(filepath.Join(*repo, dir, "*.go"))
		var out []string
		for _, f := range fs {
			if !strings.HasSuffix(f, "_test.go") {
				out = append(out, f)
			}
		}
		return out
	}
	for _, dir := range d.Focus {
		for _, f := range goFiles(dir) {
			add(f, "sync", mod+"/pkg/vsync")
		}
	}
	for _, q := range d.Quiet {
		var dirs []string
		if q == "*" {
			filepath.Walk(*repo, func(p string, info os.FileInfo, err error) error {
				if err != nil {
					return nil
				}
				if info.IsDir() {
					b := info.Name()
					if p != *repo && (strings.HasPrefix(b, ".") || b == "testdata" || b == "vendor" || b == "_tools") {
						return filepath.SkipDir
					}
					rel, _ := filepath.Rel(*repo, p)
					if rel == "pkg/vsync" || rel == "pkg/vsyncq" {
						return filepath.SkipDir
					}
					dirs = append(dirs, rel)
				}
				return nil
			})
		} else {
			dirs = []string{q}
		}
		for _, dir := range dirs {
			for _, f := range goFiles(dir) {
				add(f, "sync", mod+"/pkg/vsync")
			}
		}
	}
	for target, rules := range d.Rewrite {
		var files []string
		abs := filepath.Join(*repo, target)
		if st, err := os.Stat(abs); err == nil && st.IsDir() {
			files = goFiles(target)
		} else if err == nil {
			files = []string{abs}
		} else {
			fatal("rewrite target %s: %v", target, err)
		}
		for _, r := range rules {
			kv := strings.SplitN(r, "=", 2)
			if len(kv) != 2 {
				fatal("bad rewrite rule %q", r)
			}
			for _, f := range files {
				add(f, kv[0], kv[1])
			}
		}
	}
	mapRange := map[string][]string{}
	for target, vars := range d.MapRange {
		f := filepath.Join(*repo, target)
		mapRange[f] = vars
		if rw[f] == nil {
			rw[f] = map[string]string{}
		}
	}
	var names []string
	for f := range rw {
		names = append(names, f)
	}
	sort.Strings(names)
	rewritten := 0
	for _, f := range names {
		src, err := os.ReadFile(f)
		if err != nil {
			fatal("%v", err)
		}
		outSrc, changed, err := rewriteImports(f, src, rw[f])
		if err != nil {
			fatal("%s: %v", f, err)
		}
		if names := mapRange[f]; len(names) > 0 {
			o2, c2, err := rewriteMapRanges(f, outSrc, names)
			if err != nil {
				fatal("%s: %v", f, err)
			}
			if c2 {
				outSrc, changed = o2, true
			}
		}
		if !changed {
			continue
		}
		h := sha1.Sum(outSrc)
		dst := filepath.Join(cache, hex.EncodeToString(h[:10])+"_"+filepath.Base(f))
		if _, err := os.Stat(dst); err != nil {
			if err := os.WriteFile(dst, outSrc, 0o644); err != nil {
				fatal("%v", err)
			}
		}
		replace[f] = dst
		rewritten++
	}
	b, _ := json.MarshalIndent(map[string]any{"Replace": replace}, "", " ")
	os.MkdirAll(filepath.Dir(*out), 0o755)
	if err := os.WriteFile(*out, b, 0o644); err != nil {
		fatal("%v", err)
	}
	fmt.Fprintf(os.Stderr, "vinstr: %d overlay entries (%d rewritten files)\n", len(replace), rewritten)
}

// rewriteImports swaps import paths with byte-precise edits (line numbers are
// preserved). An import without a name gets the base name of the old path as
// its name so that references keep compiling.
func rewriteImports(name string, src []byte, rules map[string]string) ([]byte, bool, error) {
	fset := token.NewFileSet()
	f, err := parser.ParseFile(fset, name, src, parser.ImportsOnly)
	if err != nil {
		return nil, false, err
	}
	type edit struct {
		start, end int
		text       string
	}
	var edits []edit
	for _, im := range f.Imports {
		p, _ := strconv.Unquote(im.Path.Value)
		nw, ok := rules[p]
		if !ok {
			continue
		}
		if im.Name != nil && (im.Name.Name == "." || im.Name.Name == "_") {
			return nil, false, fmt.Errorf("cannot rewrite %s import of %q", im.Name.Name, p)
		}
		text := strconv.Quote(nw)
		if im.Name == nil {
			base := p[strings.LastIndex(p, "/")+1:]
			text = base + " " + text
		}
		edits = append(edits, edit{fset.Position(im.Path.Pos()).Offset, fset.Position(im.Path.End()).Offset, text})
	}
	if len(edits) == 0 {
		return src, false, nil
	}
	sort.Slice(edits, func(i, j int) bool { return edits[i].start > edits[j].start })
	out := append([]byte{}, src...)
	for _, e := range edits {
		out = append(out[:e.start], append([]byte(e.text), out[e.end:]...)...)
	}
	return out, true, nil
}

// rewriteMapRanges turns `for k, v := range NAME {` (NAME in names) into an
// iteration over vrange.Keys(NAME) on the same line and adds the import next
// to the first existing import. Loops that do not match are left alone.
func rewriteMapRanges(name string, src []byte, names []string) ([]byte, bool, error) {
	fset := token.NewFileSet()
	f, err := parser.ParseFile(fset, name, src, 0)
	if err != nil {
		return nil, false, err
	}
	// a name is an identifier or a selector as written in the source ("m", "x.m");
	// the prefix "str:" selects KeysStr (keys ordered by their printed form) for
	// key types that are not ordered (pointers with a String method)
	want := map[string]string{}
	for _, n := range names {
		if strings.HasPrefix(n, "str:") {
			want[strings.TrimPrefix(n, "str:")] = "KeysStr"
		} else {
			want[n] = "Keys"
		}
	}
	type edit struct {
		start, end int
		text       string
	}
	var edits []edit
	ast.Inspect(f, func(n ast.Node) bool {
		rs, ok := n.(*ast.RangeStmt)
		if !ok || rs.Tok != token.DEFINE {
			return true
		}
		xs := string(src[fset.Position(rs.X.Pos()).Offset:fset.Position(rs.X.End()).Offset])
		fn, ok := want[xs]
		if !ok {
			return true
		}
		k, ok1 := rs.Key.(*ast.Ident)
		if !ok1 || k.Name == "_" {
			return true
		}
		start := fset.Position(rs.For).Offset
		end := fset.Position(rs.Body.Lbrace).Offset + 1
		text := fmt.Sprintf("for _, %s := range vrange.%s(%s) {", k.Name, fn, xs)
		if rs.Value != nil {
			v, ok2 := rs.Value.(*ast.Ident)
			if !ok2 {
				return true
			}
			text += fmt.Sprintf(" %s := %s[%s]; _ = %s;", v.Name, xs, k.Name, v.Name)
		}
		edits = append(edits, edit{start, end, text})
		return true
	})
	if len(edits) == 0 || len(f.Imports) == 0 {
		return src, false, nil
	}
	im := f.Imports[0]
	pos := fset.Position(im.End()).Offset
	edits = append(edits, edit{pos, pos, "; vrange " + strconv.Quote(mod+"/pkg/vrange")})
	sort.Slice(edits, func(i, j int) bool { return edits[i].start > edits[j].start })
	out := append([]byte{}, src...)
	for _, e := range edits {
		out = append(out[:e.start], append([]byte(e.text), out[e.end:]...)...)
	}
	return out, true, nil
}

func fatal(format string, a ...any) {
	fmt.Fprintf(os.Stderr, "vinstr: "+format+"\n", a...)
	os.Exit(2)
}
