package c17

// Write-time cut-off of C17: a write is dropped as too old only if its
// timestamp is older than the retention period at the time of the write.
// Every (retention duration, set of existing shard groups, truncated group,
// ordered batch of <=3 timestamps around the cut-off, the group edges and the
// truncation point) is mapped by the real PointsWriter.MapShards at a fixed
// bubble time; oracle: dropped <=> duration > 0 and timestamp < now - duration.

import (
	"fmt"
	"testing"
	"testing/synctest"
	"time"

	"github.com/influxdata/influxdb/coordinator"
	"github.com/influxdata/influxdb/models"
	"github.com/influxdata/influxdb/services/meta"

	"verif/mc/explore"
)

type cutoffMeta struct{ d *meta.Data }

func (f *cutoffMeta) NodeID() uint64                          { return 1 }
func (f *cutoffMeta) Database(name string) *meta.DatabaseInfo { return f.d.Database(name) }
func (f *cutoffMeta) RetentionPolicy(db, rp string) (*meta.RetentionPolicyInfo, error) {
	return f.d.RetentionPolicy(db, rp)
}
func (f *cutoffMeta) CreateShardGroup(db, rp string, ts time.Time) (*meta.ShardGroupInfo, error) {
	// mirrors meta.Client.CreateShardGroup
	if sg, _ := f.d.ShardGroupByTimestamp(db, rp, ts); sg != nil {
		return sg, nil
	}
	f.d.Index++
	if err := f.d.CreateShardGroup(db, rp, ts); err != nil {
		return nil, err
	}
	rpi, err := f.d.RetentionPolicy(db, rp)
	if err != nil {
		return nil, err
	}
	return rpi.ShardGroupByTimestamp(ts), nil
}

var cutoffDurations = []time.Duration{0, time.Hour, 150 * time.Minute}

func cutoffBody(t *testing.T, maxBatch int) func(tp *explore.Tape) explore.Outcome {
	return func(tp *explore.Tape) (out explore.Outcome) {
		dur := cutoffDurations[tp.ChooseFree(len(cutoffDurations), "duration")]
		existing := tp.ChooseFree(32, "existing-groups") // bit k: the group of hour now-3h+k exists before the write
		trunc := tp.ChooseFree(6, "truncated-group")     // 0 none, k: group k-1 (if it exists) truncated at its middle
		synctest.Test(t, func(t *testing.T) {
			now := time.Now() // bubble clock: 2000-01-01T00:00:00Z, moved off the hour below
			time.Sleep(20 * time.Minute)
			now = time.Now()
			d := &meta.Data{}
			d.CreateDataNode("n1:8086", "n1:8088")
			if err := d.CreateDatabase("db"); err != nil {
				panic(err)
			}
			rpi := meta.NewRetentionPolicyInfo("rp")
			rpi.ReplicaN = 1
			rpi.Duration = dur
			rpi.ShardGroupDuration = time.Hour
			if err := d.CreateRetentionPolicy("db", rpi, true); err != nil {
				panic(err)
			}
			hour0 := now.Truncate(time.Hour).Add(-3 * time.Hour)
			for k := 0; k < 5; k++ {
				if existing&(1<<k) != 0 {
					if err := d.CreateShardGroup("db", "rp", hour0.Add(time.Duration(k)*time.Hour)); err != nil {
						panic(err)
					}
				}
			}
			var truncAt time.Time
			if trunc > 0 && existing&(1<<(trunc-1)) != 0 {
				truncAt = hour0.Add(time.Duration(trunc-1)*time.Hour + 30*time.Minute)
				d.TruncateShardGroups(truncAt)
			}
			// timestamp alphabet
			var ts []time.Time
			if dur > 0 {
				cut := now.Add(-dur)
				ts = append(ts, cut.Add(-1), cut, cut.Add(1))
			}
			for k := 0; k < 5; k++ {
				ts = append(ts, hour0.Add(time.Duration(k)*time.Hour+10*time.Minute))
			}
			if !truncAt.IsZero() {
				ts = append(ts, truncAt.Add(-1), truncAt, truncAt.Add(time.Minute))
			}
			n := 1 + tp.ChooseFree(maxBatch, "batch-size-1")
			var batch []time.Time
			for i := 0; i < n; i++ {
				batch = append(batch, ts[tp.ChooseFree(len(ts), fmt.Sprintf("ts[%d]", i))])
			}
			w := coordinator.NewPointsWriter()
			w.MetaClient = &cutoffMeta{d}
			var pts []models.Point
			for i, x := range batch {
				p, err := models.ParsePointsString(fmt.Sprintf("cpu,host=h%d v=1 %d", i, x.UnixNano()))
				if err != nil {
					panic(err)
				}
				pts = append(pts, p[0])
			}
			m, err := w.MapShards(&coordinator.WritePointsRequest{Database: "db", RetentionPolicy: "rp", Points: pts})
			desc := fmt.Sprintf("duration=%s existing-groups=%05b truncated-at=%v now=%s batch=", dur, existing, !truncAt.IsZero(), now.Format("15:04:05"))
			for _, x := range batch {
				desc += fmt.Sprintf("[now%+v]", x.Sub(now))
			}
			out.Detail = desc
			if err != nil {
				out.Violation, out.Sig = "MapShards failed: "+err.Error(), "cutoff:error"
				return
			}
			dropped := map[models.Point]bool{}
			for _, p := range m.Dropped {
				dropped[p] = true
			}
			nd := 0
			for i, p := range pts {
				tooOld := dur > 0 && batch[i].Before(now.Add(-dur))
				if dropped[p] {
					nd++
				}
				if dropped[p] && !tooOld {
					out.Violation = fmt.Sprintf("point %d (now%+v) is dropped as too old although it is younger than the retention period (%s; 0 = infinite)", i, batch[i].Sub(now), dur)
					out.Sig = "cutoff:dropped-young-point"
					return
				}
				if !dropped[p] && tooOld {
					out.Violation = fmt.Sprintf("point %d (now%+v) is older than the retention period %s but is not dropped", i, batch[i].Sub(now), dur)
					out.Sig = "cutoff:kept-expired-point"
					return
				}
			}
			out.Obs = fmt.Sprintf("cutoff dropped=%d/%d infinite=%v", nd, len(pts), dur == 0)
		})
		return out
	}
}
