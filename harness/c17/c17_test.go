// C17: retention removes only expired data, and removes all of it.
//
// The real retention.Service loop runs inside a synctest bubble (virtual ticker
// and time.Now); its meta client is a thin view over a real meta.Data with
// error injection, its store is a recording stub. Every configuration of
// (duration, later alteration, per-group state, tick offset around the expiry
// boundary, local shard set, metadata error position, number of passes) is
// enumerated.
package c17

import (
	"errors"
	"flag"
	"fmt"
	"sort"
	"strings"
	"sync"
	"testing"
	"testing/synctest"
	"time"

	"github.com/influxdata/influxdb/services/meta"
	"github.com/influxdata/influxdb/services/retention"
	"github.com/influxdata/influxdb/toml"

	"verif/mc/explore"
	"verif/mc/report"
)

var replayFile = flag.String("replay", "", "replay file")

type metaStub struct {
	mu       sync.Mutex
	d        *meta.Data
	delCalls int
	failAt   int // DeleteShardGroup call number that fails (-1 none)
	failed   bool // an injected error hit the current pass
}

func (m *metaStub) Databases() []meta.DatabaseInfo {
	m.mu.Lock()
	defer m.mu.Unlock()
	return m.d.CloneDatabases()
}
func (m *metaStub) DeleteShardGroup(db, rp string, id uint64) error {
	m.mu.Lock()
	defer m.mu.Unlock()
	n := m.delCalls
	m.delCalls++
	if n == m.failAt {
		m.failed = true
		return errors.New("meta: no leader")
	}
	return m.d.DeleteShardGroup(db, rp, id)
}
func (m *metaStub) PruneShardGroups() error {
	m.mu.Lock()
	defer m.mu.Unlock()
	m.d.PruneShardGroups()
	return nil
}

type storeStub struct {
	mu      sync.Mutex
	local   map[uint64]bool
	deleted []uint64
	when    []time.Time
}

func (s *storeStub) ShardIDs() []uint64 {
	s.mu.Lock()
	defer s.mu.Unlock()
	var ids []uint64
	for id := range s.local {
		ids = append(ids, id)
	}
	sort.Slice(ids, func(i, j int) bool { return ids[i] < ids[j] })
	return ids
}
func (s *storeStub) DeleteShard(id uint64) error {
	s.mu.Lock()
	defer s.mu.Unlock()
	s.deleted = append(s.deleted, id)
	s.when = append(s.when, time.Now())
	delete(s.local, id)
	return nil
}

const (
	gAbsent = iota
	gLive
	gTruncated
	gDeleted
	gLongDeleted
	nGroupStates
)

var gNames = []string{"absent", "live", "truncated", "deleted", "deleted>2w"}
var durations = []time.Duration{0, time.Hour, 2 * time.Hour}
var alterNames = []string{"none", "to-2h", "to-1h", "to-infinite"}
var deltas = []time.Duration{-time.Nanosecond, 0, time.Nanosecond}
var localNames = []string{"all", "none", "all+unknown", "odd-ids"}

func body(t *testing.T) func(tp *explore.Tape) explore.Outcome {
	return func(tp *explore.Tape) (out explore.Outcome) {
		dur := durations[tp.ChooseFree(len(durations), "duration")]
		alter := tp.ChooseFree(len(alterNames), "alter-after-groups")
		var gs [4]int
		for i := range gs {
			gs[i] = tp.ChooseFree(nGroupStates, fmt.Sprintf("group%d", i))
		}
		delta := deltas[tp.ChooseFree(len(deltas), "tick-offset")]
		localKind := tp.ChooseFree(len(localNames), "local-shards")
		failAt := tp.ChooseFree(3, "meta-error-at-call(0=none)") - 1
		passes := 1 + tp.ChooseFree(2, "passes-1")
		desc := fmt.Sprintf("duration=%s alter=%s groups=[%s %s %s %s] tick-offset=%s local=%s meta-error-at=%d passes=%d", dur, alterNames[alter], gNames[gs[0]], gNames[gs[1]], gNames[gs[2]], gNames[gs[3]], delta, localNames[localKind], failAt, passes)
		synctest.Test(t, func(t *testing.T) {
			T0 := time.Now().Add(20 * 24 * time.Hour).Truncate(time.Hour) // room for "deleted more than two weeks ago"
			d := &meta.Data{}
			d.CreateDataNode("n1:8086", "n1:8088")
			d.CreateDatabase("db")
			d.CreateRetentionPolicy("db", &meta.RetentionPolicyInfo{Name: "rp", ReplicaN: 1, Duration: dur, ShardGroupDuration: time.Hour}, true)
			starts := []time.Duration{-3 * time.Hour, -2 * time.Hour, -time.Hour, time.Hour}
			groupOf := map[uint64]uint64{} // shard -> group
			type ginfo struct {
				id       uint64
				end      time.Time
				preDel   bool
				shardIDs []uint64
			}
			var groups []ginfo
			for i, st := range gs {
				if st == gAbsent {
					continue
				}
				ts := T0.Add(starts[i])
				d.Index++
				if err := d.CreateShardGroup("db", "rp", ts); err != nil {
					panic(err)
				}
				g, _ := d.ShardGroupByTimestamp("db", "rp", ts)
				gi := ginfo{id: g.ID, end: g.EndTime}
				for _, s := range g.Shards {
					groupOf[s.ID] = g.ID
					gi.shardIDs = append(gi.shardIDs, s.ID)
				}
				groups = append(groups, gi)
			}
			// long-deleted groups are deleted now, the others after the clock moved on
			for i, st := range gs {
				if st == gLongDeleted {
					for _, g := range groups {
						if g.end.Equal(T0.Add(starts[i] + time.Hour)) {
							d.DeleteShardGroup("db", "rp", g.id)
						}
					}
				}
			}
			open := T0.Add(delta) // first tick at T0+1h+delta
			time.Sleep(time.Until(open.Add(-time.Minute)))
			for i, st := range gs {
				for k := range groups {
					g := &groups[k]
					if !g.end.Equal(T0.Add(starts[i] + time.Hour)) {
						continue
					}
					switch st {
					case gTruncated:
						d.TruncateShardGroups(g.end.Add(-30 * time.Minute))
					case gDeleted:
						d.DeleteShardGroup("db", "rp", g.id)
						g.preDel = true
					case gLongDeleted:
						g.preDel = true
					}
				}
			}
			switch alter {
			case 1, 2, 3:
				nd := []time.Duration{0, 2 * time.Hour, time.Hour, 0}[alter]
				u := &meta.RetentionPolicyUpdate{}
				u.SetDuration(nd)
				if err := d.UpdateRetentionPolicy("db", "rp", u, false); err == nil {
					dur = nd
				}
			}
			ms := &metaStub{d: d, failAt: failAt}
			ss := &storeStub{local: map[uint64]bool{}}
			for sid := range groupOf {
				switch localKind {
				case 0, 2:
					ss.local[sid] = true
				case 3:
					if sid%2 == 1 {
						ss.local[sid] = true
					}
				}
			}
			if localKind == 2 {
				ss.local[99] = true
			}
			cfg := retention.NewConfig()
			cfg.CheckInterval = toml.Duration(time.Hour)
			svc := retention.NewService(cfg)
			svc.MetaClient = ms
			svc.TSDBStore = ss
			time.Sleep(time.Until(open))
			svc.Open()
			defer svc.Close()
			for pass := 1; pass <= passes; pass++ {
				ms.mu.Lock()
				ms.failed = false
				ms.mu.Unlock()
				time.Sleep(time.Hour)
				synctest.Wait()
				out.Steps++
				now := time.Now()
				expired := func(g ginfo) bool { return dur != 0 && g.end.Add(dur).Before(now) }
				// safety: every deleted local shard belongs to a deleted or expired group
				for _, sid := range ss.deleted {
					gid, known := groupOf[sid]
					if !known {
						out.Violation = fmt.Sprintf("retention deleted local shard %d which the metadata does not know", sid)
						out.Sig = "deleted-unknown-shard"
						return
					}
					for _, g := range groups {
						if g.id == gid && !g.preDel && !expired(g) {
							out.Violation = fmt.Sprintf("retention deleted local shard %d of group %d which is neither marked deleted nor older than the retention period (end %s + %s vs now %s)", sid, gid, g.end.Format(time.RFC3339Nano), dur, now.Format(time.RFC3339Nano))
							out.Sig = "deleted-unexpired-shard"
							return
						}
					}
				}
				// liveness after an error-free pass
				errorFree := !ms.failed
				if errorFree {
					rpi, _ := d.RetentionPolicy("db", "rp")
					for _, g := range groups {
						var cur *meta.ShardGroupInfo
						for i := range rpi.ShardGroups {
							if rpi.ShardGroups[i].ID == g.id {
								cur = &rpi.ShardGroups[i]
							}
						}
						if expired(g) && cur != nil && !cur.Deleted() {
							out.Violation = fmt.Sprintf("group %d is older than the retention period (end %s + %s < now %s) but is not marked deleted after an error-free pass", g.id, g.end.Format(time.RFC3339Nano), dur, now.Format(time.RFC3339Nano))
							out.Sig = "expired-not-marked"
							return
						}
						if expired(g) || g.preDel {
							for _, sid := range g.shardIDs {
								if ss.local[sid] {
									out.Violation = fmt.Sprintf("local shard %d of deleted/expired group %d is still present after an error-free pass", sid, g.id)
									out.Sig = "expired-shard-kept"
									return
								}
							}
						}
					}
				}
			}
			var del []string
			for _, s := range ss.deleted {
				del = append(del, fmt.Sprint(s))
			}
			out.Obs = fmt.Sprintf("deleted=%d", len(ss.deleted))
			out.Detail = strings.Join(del, ",")
		})
		if out.Violation != "" {
			out.Detail = desc
		}
		return out
	}
}

func TestCheck(t *testing.T) {
	c := report.Begin("C17", "model_checking")
	c.Rule = "every configuration tuple is one execution of the real retention.Service loop on a virtual clock; distinct = number of local shards deleted"
	c.Assumptions = []string{
		"meta client = thin view over a real meta.Data (DeleteShardGroup/PruneShardGroups are the real Data methods) with injected errors; store is a recording stub",
		"time is the synctest bubble clock: the tick lands 1ns before, at, and 1ns after the expiry boundary",
		"write-time cut-off: real PointsWriter.MapShards over a real meta.Data at a fixed bubble time; batches of <=2 (3 thorough) timestamps (the C08 check enumerates the same clause over metadata histories)",
	}
	b := body(t)
	if *replayFile != "" {
		rp, err := report.LoadReplay(*replayFile)
		if err != nil {
			t.Fatal(err)
		}
		rb := b
		if rp.Scenario == "write-cutoff" {
			rb = cutoffBody(t, 3)
		}
		out, tp := explore.Replay(rp.Tape, rb)
		fmt.Println(strings.Join(tp.Labels(), " "))
		fmt.Printf("outcome: %+v\n", out)
		if out.Violation != "" {
			report.ExitCode = 1
		}
		return
	}
	r := explore.Explore(explore.Config{Bound: -1, Workers: 16}, b)
	c.AddExplore("retention-service", r, nil)
	r2 := explore.Explore(explore.Config{Bound: -1, Workers: 16}, cutoffBody(t, c.Pick(2, 3)))
	c.AddExplore("write-cutoff", r2, nil)
	report.ExitCode = c.Finish()
}

func TestMain(m *testing.M) { flag.Parse(); report.Main(m.Run) }
