// C03: cluster write honours the requested consistency level.
//
// Every configuration (owners, coordinator position, level, per-owner outcome,
// arrival order of the answers, position of the write timeout among them) is
// enumerated on the real PointsWriter inside a synctest bubble. Stub store,
// shard writer and hinted handoff are gates: a call for owner X blocks until
// the controller releases X, so the arrival order is an explorer choice.
package c03

import (
	"errors"
	"flag"
	"fmt"
	"sort"
	"strings"
	"sync"
	"testing"
	"testing/synctest"
	"time"

	"github.com/influxdata/influxdb/coordinator"
	"github.com/influxdata/influxdb/models"
	"github.com/influxdata/influxdb/services/meta"
	"github.com/influxdata/influxdb/tsdb"

	"verif/mc/explore"
	"verif/mc/report"
)

var replayFile = flag.String("replay", "", "replay file")

const (
	rStored = iota
	rRetryHHOK
	rRetryHHRefused
	rPermanent
	rQueueHHOK
	rQueueHHRefused
	nRemote
)
const (
	lStored = iota
	lError
	lNotFoundThenStored
	lNotFoundCreateFails
	nLocal
)

var remoteNames = []string{"stored", "retryable+hh-accepted", "retryable+hh-refused", "permanent-rejection", "queue-nonempty+hh-accepted", "queue-nonempty+hh-refused"}
var localNames = []string{"local-stored", "local-error", "local-notfound-created-stored", "local-notfound-create-fails"}
var levels = []models.ConsistencyLevel{models.ConsistencyLevelAny, models.ConsistencyLevelOne, models.ConsistencyLevelQuorum, models.ConsistencyLevelAll}
var levelNames = []string{"any", "one", "quorum", "all"}

type stubs struct {
	mu        sync.Mutex
	self      uint64
	outcome   map[uint64]int // node id -> outcome
	gate      map[uint64]chan struct{}
	hhOffers  map[uint64]int
	direct    map[uint64]int
	localTry  int
	created   int
	badPoints bool
}

func (s *stubs) wait(node uint64) { <-s.gate[node] }

// meta client
func (s *stubs) NodeID() uint64 { return s.self }

type metaStub struct {
	*stubs
	rp *meta.RetentionPolicyInfo
}

func (m *metaStub) Database(name string) *meta.DatabaseInfo {
	return &meta.DatabaseInfo{Name: name, DefaultRetentionPolicy: "rp"}
}
func (m *metaStub) RetentionPolicy(db, rp string) (*meta.RetentionPolicyInfo, error) {
	return m.rp, nil
}
func (m *metaStub) CreateShardGroup(db, rp string, ts time.Time) (*meta.ShardGroupInfo, error) {
	return &m.rp.ShardGroups[0], nil
}

// tsdb store (local owner)
type storeStub struct{ *stubs }

func (s storeStub) CreateShard(db, rp string, id uint64, enabled bool) error {
	s.wait(s.self)
	s.mu.Lock()
	defer s.mu.Unlock()
	s.created++
	if s.outcome[s.self] == lNotFoundCreateFails {
		return errors.New("create shard failed")
	}
	return nil
}
func (s storeStub) WriteToShard(id uint64, pts []models.Point) error {
	s.wait(s.self)
	s.mu.Lock()
	defer s.mu.Unlock()
	s.localTry++
	if len(pts) != 1 {
		s.badPoints = true
	}
	switch s.outcome[s.self] {
	case lStored:
		return nil
	case lError:
		return errors.New("engine: disk failure")
	default:
		if s.localTry == 1 {
			return tsdb.ErrShardNotFound
		}
		return nil
	}
}

// shard writer (remote owner, direct path)
type writerStub struct{ *stubs }

func (s writerStub) WriteShard(shardID, ownerID uint64, pts []models.Point) error {
	s.wait(ownerID)
	s.mu.Lock()
	defer s.mu.Unlock()
	s.direct[ownerID]++
	if len(pts) != 1 {
		s.badPoints = true
	}
	switch s.outcome[ownerID] {
	case rStored:
		return nil
	case rRetryHHOK, rRetryHHRefused:
		return errors.New("dial tcp: connection refused")
	case rPermanent:
		return errors.New("partial write: field type conflict: input field \"v\" is type float, already exists as type integer dropped=1")
	}
	return errors.New("unexpected direct write with non-empty queue")
}

// hinted handoff
type hhStub struct{ *stubs }

func (s hhStub) Empty(shardID, ownerID uint64) bool {
	s.wait(ownerID)
	s.mu.Lock()
	defer s.mu.Unlock()
	o := s.outcome[ownerID]
	return !(o == rQueueHHOK || o == rQueueHHRefused)
}
func (s hhStub) WriteShard(shardID, ownerID uint64, pts []models.Point) error {
	s.wait(ownerID)
	s.mu.Lock()
	defer s.mu.Unlock()
	s.hhOffers[ownerID]++
	if len(pts) != 1 {
		s.badPoints = true
	}
	switch s.outcome[ownerID] {
	case rRetryHHOK, rQueueHHOK:
		return nil
	}
	return errors.New("hinted handoff queue is full")
}

func perms(n int) [][]int {
	if n == 1 {
		return [][]int{{0}}
	}
	var out [][]int
	for _, p := range perms(n - 1) {
		for i := 0; i <= len(p); i++ {
			q := append(append(append([]int{}, p[:i]...), n-1), p[i:]...)
			out = append(out, q)
		}
	}
	sort.Slice(out, func(i, j int) bool {
		for k := range out[i] {
			if out[i][k] != out[j][k] {
				return out[i][k] < out[j][k]
			}
		}
		return false
	})
	return out
}

func classify(err error) string {
	switch {
	case err == nil:
		return "ok"
	case err == coordinator.ErrTimeout:
		return "timeout"
	case err == coordinator.ErrPartialWrite:
		return "partial"
	case err == coordinator.ErrWriteFailed || strings.HasPrefix(err.Error(), "write failed"):
		return "failed"
	}
	return "other(" + err.Error() + ")"
}

func body(t *testing.T, maxOwners int) func(tp *explore.Tape) explore.Outcome {
	return func(tp *explore.Tape) (out explore.Outcome) {
		n := 1 + tp.ChooseFree(maxOwners, "owners-1")
		coord := tp.ChooseFree(n+1, "coordinator") // n = non-owner
		lvl := tp.ChooseFree(4, "level")
		oc := make([]int, n)
		for i := 0; i < n; i++ {
			if i == coord {
				oc[i] = tp.ChooseFree(nLocal, fmt.Sprintf("local-outcome[%d]", i))
			} else {
				oc[i] = tp.ChooseFree(nRemote, fmt.Sprintf("remote-outcome[%d]", i))
			}
		}
		ps := perms(n)
		order := ps[tp.ChooseFree(len(ps), "arrival-order")]
		tpos := n - tp.ChooseFree(n+1, "answers-before-timeout(n-x)")

		st := &stubs{outcome: map[uint64]int{}, gate: map[uint64]chan struct{}{}, hhOffers: map[uint64]int{}, direct: map[uint64]int{}}
		owners := make([]meta.ShardOwner, n)
		for i := range owners {
			owners[i] = meta.ShardOwner{NodeID: uint64(i + 1)}
			st.outcome[uint64(i+1)] = oc[i]
		}
		st.self = uint64(coord + 1) // n+1 when the coordinator owns nothing
		var got error
		synctest.Test(t, func(t *testing.T) {
			for i := 1; i <= n+1; i++ {
				st.gate[uint64(i)] = make(chan struct{})
			}
			now := time.Now()
			rp := &meta.RetentionPolicyInfo{Name: "rp", ReplicaN: n, Duration: 0, ShardGroupDuration: time.Hour,
				ShardGroups: []meta.ShardGroupInfo{{ID: 1, StartTime: now.Add(-time.Hour), EndTime: now.Add(time.Hour),
					Shards: []meta.ShardInfo{{ID: 7, Owners: owners}}}}}
			w := coordinator.NewPointsWriter()
			w.WriteTimeout = 5 * time.Second
			w.MetaClient = &metaStub{st, rp}
			w.TSDBStore = storeStub{st}
			w.ShardWriter = writerStub{st}
			w.HintedHandoff = hhStub{st}
			w.Open()
			pt := models.MustNewPoint("cpu", models.NewTags(map[string]string{"h": "a"}), models.Fields{"v": 1.0}, now)
			done := make(chan struct{})
			go func() {
				got = w.WritePointsPrivileged("db", "rp", levels[lvl], []models.Point{pt})
				close(done)
			}()
			synctest.Wait()
			for i := 0; i < tpos; i++ {
				close(st.gate[uint64(order[i]+1)])
				synctest.Wait()
				out.Steps++
			}
			if tpos < n {
				time.Sleep(w.WriteTimeout + time.Nanosecond)
				synctest.Wait()
				out.Steps++
			}
			select {
			case <-done:
			default:
				out.Violation = "write did not return although every owner answered or the timeout elapsed"
				out.Sig = "hang"
			}
			for i := tpos; i < n; i++ {
				close(st.gate[uint64(order[i]+1)])
			}
			synctest.Wait()
			<-done
			w.Close()
		})
		if out.Violation != "" {
			return out
		}
		// reference model
		isLocal := func(i int) bool { return i == coord }
		success := func(i int) bool {
			if isLocal(i) {
				return oc[i] == lStored || oc[i] == lNotFoundThenStored
			}
			if oc[i] == rStored {
				return true
			}
			return lvl == 0 && (oc[i] == rRetryHHOK || oc[i] == rQueueHHOK)
		}
		required := 1
		switch lvl {
		case 2:
			required = n/2 + 1
		case 3:
			required = n
		}
		want, wrote := "", 0
		for i := 0; i < tpos && want == ""; i++ {
			if success(order[i]) {
				wrote++
				if wrote >= required {
					want = "ok"
				}
			}
		}
		if want == "" {
			switch {
			case tpos < n:
				want = "timeout"
			case wrote > 0:
				want = "partial"
			default:
				want = "failed"
			}
		}
		gotc := classify(got)
		var names []string
		for i := 0; i < n; i++ {
			if isLocal(i) {
				names = append(names, localNames[oc[i]])
			} else {
				names = append(names, remoteNames[oc[i]])
			}
		}
		out.Obs = fmt.Sprintf("%s/%s", levelNames[lvl], gotc)
		desc := fmt.Sprintf("owners=%v coordinator=%d level=%s order=%v answers_before_timeout=%d", names, coord, levelNames[lvl], order, tpos)
		if gotc != want {
			out.Violation = fmt.Sprintf("write returned %q (%v), the consistency model requires %q", gotc, got, want)
			out.Sig = fmt.Sprintf("return:level=%s:want=%s:got=%s", levelNames[lvl], want, gotc)
			out.Detail = desc
			return out
		}
		// handoff offers after quiescence
		for i := 0; i < n; i++ {
			id := uint64(i + 1)
			wantOffers, wantDirect := 0, 0
			if !isLocal(i) {
				switch oc[i] {
				case rRetryHHOK, rRetryHHRefused:
					wantOffers, wantDirect = 1, 1
				case rQueueHHOK, rQueueHHRefused:
					wantOffers, wantDirect = 1, 0
				default:
					wantDirect = 1
				}
			}
			if st.hhOffers[id] != wantOffers {
				out.Violation = fmt.Sprintf("owner %d (%s) was offered to hinted handoff %d times, expected %d", id, names[i], st.hhOffers[id], wantOffers)
				out.Sig = fmt.Sprintf("offers:%s:got=%d", names[i], st.hhOffers[id])
				out.Detail = desc
				return out
			}
			if st.direct[id] != wantDirect {
				out.Violation = fmt.Sprintf("owner %d (%s) was written directly %d times, expected %d", id, names[i], st.direct[id], wantDirect)
				out.Sig = fmt.Sprintf("direct:%s:got=%d", names[i], st.direct[id])
				out.Detail = desc
				return out
			}
		}
		if st.badPoints {
			out.Violation = "an owner received a batch that is not the written batch"
			out.Sig = "points"
			out.Detail = desc
		}
		return out
	}
}

func TestCheck(t *testing.T) {
	c := report.Begin("C03", "fault_enumeration")
	maxOwners := c.Pick(3, 4)
	b := body(t, maxOwners)
	if *replayFile != "" {
		tape, err := report.LoadTape(*replayFile)
		if err != nil {
			t.Fatal(err)
		}
		out, tp := explore.Replay(tape, b)
		fmt.Println(strings.Join(tp.Labels(), " "))
		fmt.Printf("outcome: %+v\n", out)
		if out.Violation != "" {
			report.ExitCode = 1
		}
		return
	}
	c.Rule = "every (owner count, coordinator position, level, per-owner outcome, arrival order, timeout position) tuple is one execution of the real PointsWriter in a synctest bubble with gate stubs; distinct = (level, return class) pairs observed"
	c.Assumptions = []string{
		"stub store/shard writer/handoff stand for the real ones: only their return values and call counts are observed",
		"calls made on behalf of one owner are released as a unit (stubs of different owners touch disjoint state)",
		"Go 1.26 synctest virtual clock stands for the wall clock of WriteTimeout",
	}
	r := explore.Explore(explore.Config{Bound: -1, Workers: 16}, b)
	c.AddExplore(fmt.Sprintf("points-writer owners<=%d", maxOwners), r, map[string]any{"max_owners": maxOwners})
	report.ExitCode = c.Finish()
}

func TestMain(m *testing.M) { flag.Parse(); report.Main(m.Run) }
