package c18

// A backup taken while writes continue: the copy must equal some state the
// shard was in between the start and the end of the backup. One thread runs
// Store.BackupShard, another performs two acknowledged writes one after the
// other (the second overwrites a point of the first), under the controlled
// scheduler (sync operations of the tsdb packages are scheduling points,
// delay-bounded). The stream is restored into a fresh store: its reads must
// equal the model before the writes, after the first or after both; the source
// must read as after both.

import (
	"bytes"
	"fmt"
	"os"
	"strings"
	"testing"
	"testing/synctest"
	"time"

	"github.com/influxdata/influxdb/pkg/vsync"

	ek "verif/harness/enginekit"
	"verif/mc/explore"
	"verif/mc/report"
)

type raceScenario struct {
	name     string
	base     string // "cache" | "files"
	auxFirst bool   // the snapshot encoders started by the backup run before the writer resumes
	bound    [2]int
}

var raceScenarios = []raceScenario{
	{name: "backup x two writes (data in the cache)", base: "cache", bound: [2]int{1, 2}},
	{name: "backup x two writes (data in files and cache)", base: "files", bound: [2]int{1, 2}},
	{name: "backup x two writes (data in the cache), background goroutines first", base: "cache", auxFirst: true, bound: [2]int{1, 2}},
}

func raceBody(t *testing.T, sc raceScenario) func(tp *explore.Tape) explore.Outcome {
	return func(tp *explore.Tape) (out explore.Outcome) {
		dir := ek.NewTempDir("c18s")
		defer os.RemoveAll(dir)
		var res vsync.Result
		var viol, sig, which string
		synctest.Test(t, func(t *testing.T) {
			env := &ek.Env{Dir: dir, IndexType: "inmem", BlockSize: 2, WAL: true}
			if err := env.Open(); err != nil {
				panic(err)
			}
			defer env.Close()
			m := ek.NewModel()
			write := func(pts []ek.Point) {
				m.Write(pts)
				if err := env.Write(pts); err != nil {
					panic(err)
				}
			}
			write([]ek.Point{{sA, "f", 1, fv(1.1)}, {sA, "f", 2, fv(1.2)}, {sB, "i", 2, iv(22)}})
			if sc.base == "files" {
				env.Snapshot()
				write([]ek.Point{{sA, "f", 3, fv(1.3)}})
			}
			w1 := []ek.Point{{sA, "f", 4, fv(4.1)}, {sB, "f", 4, fv(4.4)}}
			w2 := []ek.Point{{sA, "f", 4, fv(4.2)}, {sA, "f", 5, fv(5.2)}}
			s0 := m.Clone()
			s1 := m.Clone()
			s1.Write(w1)
			s2 := s1.Clone()
			s2.Write(w2)
			var buf bytes.Buffer
			var errB, errW error
			synctest.Wait()
			res = vsync.Run(func(n int, label string, preempt bool) int { return tp.Choose(n, label) },
				vsync.Config{Focus: []string{"github.com/influxdata/influxdb/tsdb"}, AuxFirst: sc.auxFirst},
				// the writer is the first thread: one deviation then places the whole backup at any point inside a write
				func() {
					if errW = env.Write(w1); errW == nil {
						errW = env.Write(w2)
					}
				},
				func() { errB = env.Store.BackupShard(ek.ShardID, time.Time{}, &buf) })
			if res.Deadlock || res.Livelock {
				out.Violation = fmt.Sprintf("deadlock=%v livelock=%v: %s", res.Deadlock, res.Livelock, strings.Join(res.Stuck, "; "))
				out.Sig = "backup-race:deadlock"
				out.Steps = res.Steps
				explore.Abort(tp, out)
			}
			if errB != nil {
				viol, sig = "the backup failed while writes continued: "+errB.Error(), "backup-race:backup-error"
				return
			}
			if errW != nil {
				viol, sig = "a write failed while the backup was running: "+errW.Error(), "backup-race:write-error"
				return
			}
			if v, s := env.CheckReads(s2, universe, fieldTypes, ranges, false); v != "" {
				viol, sig = "the source shard after the backup and both writes: "+v, "backup-race:source:"+s
				return
			}
			// restore into a fresh store and compare with the three admissible states
			var diffs []string
			for i, st := range []*ek.Model{s0, s1, s2} {
				v, _, _ := restoreAndCheck(buf.Bytes(), -1, false, "inmem", st)
				if v == "" {
					which = fmt.Sprintf("state-%d", i)
					return
				}
				diffs = append(diffs, fmt.Sprintf("vs state %d: %s", i, v))
			}
			viol = "the copy made from a backup taken while two writes were acknowledged equals none of the states the shard was in (before the writes, after the first, after both): " + strings.Join(diffs, " | ")
			sig = "backup-race:copy-is-no-state"
		})
		out.Steps = res.Steps
		out.Obs = sc.name + ": copy=" + which
		out.Violation, out.Sig = viol, sig
		out.Detail = sc.name
		return out
	}
}

func findRace(name string) (raceScenario, bool) {
	for _, s := range raceScenarios {
		if s.name == name {
			return s, true
		}
	}
	return raceScenario{}, false
}

func raceWorker(t *testing.T, scenario string) {
	sc, ok := findRace(scenario)
	if !ok {
		t.Fatalf("unknown scenario %q", scenario)
	}
	explore.WorkerLoop(raceBody(t, sc))
}

func racePart(t *testing.T, c *report.Check) {
	for _, sc := range raceScenarios {
		bound := sc.bound[0]
		if c.Thorough() {
			bound = sc.bound[1]
		}
		r := explore.ExploreProcs(explore.ProcConfig{Scenario: sc.name, Bound: bound, Procs: 16, Budget: 50, MaxExecs: int64(c.Pick(20000, 30000))})
		c.AddExplore(fmt.Sprintf("schedules: %s (delay bound %d)", sc.name, bound), r, map[string]any{"part": "race", "scenario": sc.name, "bound": bound})
	}
}
