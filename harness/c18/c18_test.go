// C18: backup, restore and shard copy reproduce the shard exactly.
//
// Explicit-state BFS over source shard histories (writes, overwrite, snapshot,
// compaction, range delete, reopen). In every reached state the shard is
// backed up through the real Store.BackupShard and restored into a fresh store
// through CreateShard + Store.RestoreShard (the path a shard copy takes): every
// read of the copy must equal the source's model, and the source must read the
// same after the backup. For the shallow states the backup stream is also cut
// at every tar boundary (+-1 byte and mid-block): a restore that reports
// success must hold the complete shard.
package c18

import (
	"bytes"
	"errors"
	"flag"
	"fmt"
	"io"
	"os"
	"runtime/debug"
	"testing"
	"testing/synctest"
	"time"

	"github.com/influxdata/influxql"

	ek "verif/harness/enginekit"
	"verif/mc/explore"
	"verif/mc/report"
)

var replayFile = flag.String("replay", "", "replay file")

var (
	sA = ek.Series{Measurement: "cpu", Tags: map[string]string{"host": "a"}}
	sB = ek.Series{Measurement: "cpu", Tags: map[string]string{"host": "b"}}
)

func fv(x float64) ek.Val { return ek.Val{Typ: influxql.Float, F: x} }
func iv(x int64) ek.Val   { return ek.Val{Typ: influxql.Integer, I: x} }

type op struct {
	name  string
	write []ek.Point
	kind  string
	cond  string
	sel   func(ek.Series) bool
	min   int64
	max   int64
}

func ops() []op {
	hostA := func(s ek.Series) bool { return s.Tags["host"] == "a" }
	all := func(ek.Series) bool { return true }
	return []op{
		{name: "write a.f@1,2,3 b.i@2", write: []ek.Point{{sA, "f", 1, fv(1.1)}, {sA, "f", 2, fv(1.2)}, {sA, "f", 3, fv(1.3)}, {sB, "i", 2, iv(22)}}},
		{name: "write a.f@2,5 (overwrite)", write: []ek.Point{{sA, "f", 2, fv(9.2)}, {sA, "f", 5, fv(9.5)}}},
		{name: "write b.f@4", write: []ek.Point{{sB, "f", 4, fv(4.4)}}},
		{name: "snapshot", kind: "snapshot"},
		{name: "compact full", kind: "compact"},
		{name: "DELETE host=a time[2,3]", kind: "delete", cond: "host = 'a' AND time >= 2 AND time <= 3", sel: hostA, min: 2, max: 3},
		{name: "DELETE time>=4", kind: "delete", cond: "time >= 4", sel: all, min: 4, max: influxql.MaxTime},
		{name: "reopen", kind: "reopen"},
	}
}

var universe = []ek.Series{sA, sB}
var fieldTypes = map[string]influxql.DataType{"f": influxql.Float, "i": influxql.Integer}
var ranges = []ek.Range{{influxql.MinTime, influxql.MaxTime, true}, {influxql.MinTime, influxql.MaxTime, false}, {2, 3, true}}

type cutReader struct {
	r    io.Reader
	left int
}

func (c *cutReader) Read(p []byte) (int, error) {
	if c.left <= 0 {
		return 0, errors.New("connection reset by peer")
	}
	if len(p) > c.left {
		p = p[:c.left]
	}
	n, err := c.r.Read(p)
	c.left -= n
	return n, err
}

// eofReader ends the stream cleanly at the cut (a connection closed by the peer).
type eofReader struct {
	r    io.Reader
	left int
}

func (c *eofReader) Read(p []byte) (int, error) {
	if c.left <= 0 {
		return 0, io.EOF
	}
	if len(p) > c.left {
		p = p[:c.left]
	}
	n, err := c.r.Read(p)
	c.left -= n
	return n, err
}

func restoreAndCheck(stream []byte, cut int, clean bool, index string, m *ek.Model) (viol, sig, obs string) {
	dir := ek.NewTempDir("c18r")
	defer os.RemoveAll(dir)
	dst := &ek.Env{Dir: dir, IndexType: index, BlockSize: 2, WAL: true}
	if err := dst.Open(); err != nil {
		return "open destination: " + err.Error(), "open-error", ""
	}
	defer dst.Close()
	var r io.Reader = bytes.NewReader(stream)
	if cut >= 0 {
		if clean {
			r = &eofReader{r: r, left: cut}
		} else {
			r = &cutReader{r: r, left: cut}
		}
	}
	err := dst.Store.RestoreShard(ek.ShardID, r)
	if err != nil {
		if cut < 0 {
			return "restore of a complete backup failed: " + err.Error(), "restore-error", ""
		}
		return "", "", "cut-restore-refused"
	}
	// the restore reported success: the destination would now be advertised as a replica
	dst.Shard = dst.Store.Shard(ek.ShardID)
	if v, s := dst.CheckReads(m, universe, fieldTypes, ranges, true); v != "" {
		if cut >= 0 {
			kind := "reset"
			if clean {
				kind = "closed"
			}
			return fmt.Sprintf("a backup stream cut at byte %d of %d (connection %s) was restored without error, but the copy differs from the source: %s", cut, len(stream), kind, v), "partial-copy-accepted:" + kind, ""
		}
		return "the restored copy differs from the source: " + v, "copy:" + s, ""
	}
	if cut >= 0 {
		return "", "", "cut-restore-complete-anyway"
	}
	return "", "", "copy-equal"
}

func run(t *testing.T, alphabet []op, seq []int, index string, cuts, exports bool) explore.StepResult {
	return explore.Guard(180*time.Second, func() (res explore.StepResult) {
		dir := ek.NewTempDir("c18")
		defer os.RemoveAll(dir)
		synctest.Test(t, func(t *testing.T) {
			defer func() {
				if x := recover(); x != nil {
					res.Violation, res.Sig = fmt.Sprintf("panic: %v\n%s", x, debug.Stack()), "panic"
				}
			}()
			env := &ek.Env{Dir: dir, IndexType: index, BlockSize: 2, WAL: true}
			if err := env.Open(); err != nil {
				res.Violation, res.Sig = "open: "+err.Error(), "open-error"
				return
			}
			defer env.Close()
			m := ek.NewModel()
			for i, oi := range seq {
				o := alphabet[oi]
				last := i == len(seq)-1
				switch {
				case o.write != nil:
					m.Write(o.write)
					env.Write(o.write)
				case o.kind == "snapshot":
					env.Snapshot()
				case o.kind == "compact":
					n, _, _ := env.Engine.VCompact("full")
					if last && n == 0 {
						res.Skip = true
						return
					}
				case o.kind == "delete":
					m.DeleteRange(func(s ek.Series) bool { return s.Measurement == "cpu" && o.sel(s) }, o.min, o.max)
					env.DeleteWhere("cpu", o.cond)
				case o.kind == "reopen":
					if err := env.Reopen(); err != nil {
						res.Violation, res.Sig = "reopen failed: "+err.Error(), "reopen-error"
						return
					}
				}
				if !last {
					continue
				}
				if v, s := env.CheckReads(m, universe, fieldTypes, ranges, false); v != "" {
					res.Violation, res.Sig = "source before backup: "+v, "source:"+s
					return
				}
				// the state key is taken before the backup: prefixes are replayed without it
				res.State = m.Dump() + "|" + env.Engine.VLayout()
				var buf bytes.Buffer
				if err := env.Store.BackupShard(ek.ShardID, time.Time{}, &buf); err != nil {
					res.Violation, res.Sig = "backup failed: "+err.Error(), "backup-error"
					return
				}
				if v, s := env.CheckReads(m, universe, fieldTypes, ranges, false); v != "" {
					res.Violation, res.Sig = "the source shard reads differently after being backed up: "+v, "source-changed:"+s
					return
				}
				stream := buf.Bytes()
				v, s, obs := restoreAndCheck(stream, -1, false, index, m)
				res.Obs = obs
				if v != "" {
					res.Violation, res.Sig, res.Detail = v, s, "source layout: "+env.Engine.VLayout()
					if s == "copy:read:extra-points" && env.Engine.VLayout() != "" && hasTombstones(env) {
						// known finding: pending deletes (tombstone files) are not restored; keep exploring
						res.SoftViolation, res.SoftSig, res.SoftDetail = v, "copy:tombstones-not-restored", res.Detail
						res.Violation, res.Sig, res.Detail = "", "", ""
					} else {
						return
					}
				}
				if exports && len(m.Data) > 0 {
					for _, b := range exportBounds() {
						for _, online := range []bool{false, true} {
							v, s := exportAndCheck(env, m, b[0], b[1], index, online)
							if v == "" {
								continue
							}
							if hasTombstones(env) && (s == "export:extra-points" || s == "export:missing-point" || s == "export:error" || s == "export:restore-error") {
								if res.SoftViolation == "" {
									res.SoftViolation, res.SoftSig, res.SoftDetail = v, s+":pending-deletes", "source layout: "+env.Engine.VLayout()
								}
								continue
							}
							res.Violation, res.Sig, res.Detail = v, s, "source layout: "+env.Engine.VLayout()
							return
						}
					}
				}
				if cuts && len(m.Data) > 0 {
					for _, cut := range cutPoints(len(stream)) {
						for _, clean := range []bool{false, true} {
							v, s, _ := restoreAndCheck(stream, cut, clean, index, m)
							if v != "" {
								if s == "partial-copy-accepted:closed" {
									if res.SoftViolation == "" {
										res.SoftViolation, res.SoftSig = v, "partial-copy-accepted:closed"
									}
									continue
								}
								res.Violation, res.Sig = v, s
								return
							}
						}
					}
				}
			}
			if len(seq) == 0 {
				res.State = "empty"
			}
		})
		return res
	})
}

func hasTombstones(env *ek.Env) bool {
	for _, f := range env.Engine.FileStore.Files() {
		if f.HasTombstones() {
			return true
		}
	}
	return false
}

// cutPoints: every 512-byte tar boundary -1/0/+1 and the middle of every block.
func cutPoints(n int) []int {
	set := map[int]bool{0: true, 1: true}
	for b := 512; b <= n; b += 512 {
		for _, d := range []int{-1, 0, 1, 256} {
			if c := b + d; c > 0 && c < n {
				set[c] = true
			}
		}
	}
	var out []int
	for c := range set {
		out = append(out, c)
	}
	return out
}

func TestCheck(t *testing.T) {
	if sc := explore.WorkerScenario(); sc != "" {
		raceWorker(t, sc)
		return
	}
	c := report.Begin("C18", "model_checking")
	c.Rule = "states = (model content, physical layout) of the source shard reached by BFS; in every state the shard is backed up and restored into a fresh store and every read of the copy and of the source is compared with the model; for shallow states the stream is cut at every tar boundary (+-1, mid-block), as a reset and as a clean close; distinct = states + outcome classes"
	c.Assumptions = []string{
		"copy = Store.BackupShard -> CreateShard + Store.RestoreShard, the calls coordinator.Service makes for a shard copy (the network hop and the metadata update are not part of this check)",
		"time-bounded backups: Store.ExportShard over every [start,end] of 0..6 restored offline and online; oracle: source points inside the range are in the copy, the copy holds only source points (whole blocks may exceed the range); incremental (since) backups are not enumerated",
		"backup racing writes: BackupShard x two sequential acknowledged writes under the controlled scheduler (sync operations of the tsdb packages are scheduling points, delay-bounded; sync/atomic and channel operations are not)",
	}
	alphabet := ops()
	if *replayFile != "" {
		rp, err := report.LoadReplay(*replayFile)
		if err != nil {
			t.Fatal(err)
		}
		if rp.Config["part"] == "race" {
			if sc, ok := findRace(rp.Config["scenario"]); ok {
				out, tp := explore.Replay(rp.Tape, raceBody(t, sc))
				fmt.Printf("replay %s\n%d choices\noutcome: %+v\n", sc.name, len(tp.Choices), out)
				if out.Violation != "" {
					report.ExitCode = 1
				}
			}
			return
		}
		r := run(t, alphabet, rp.Seq, "inmem", rp.Config["cuts"] == "true", rp.Config["exports"] == "true")
		fmt.Printf("replay %v: violation=%q sig=%q soft=%q\n%s\n", rp.Seq, r.Violation, r.Sig, r.SoftViolation, r.Detail)
		if r.Violation != "" {
			report.ExitCode = 1
		}
		return
	}
	if os.Getenv("VERIF_C18_ONLY") == "race" { // development aid
		racePart(t, c)
		report.ExitCode = c.Finish()
		return
	}
	depth := c.Pick(5, 6)
	r := explore.BFS(explore.BFSConfig{Ops: len(alphabet), Depth: depth, Workers: 16, OpName: func(i int) string { return alphabet[i].name }},
		func(seq []int) explore.StepResult { return run(t, alphabet, seq, "inmem", false, false) })
	c.AddBFS("backup+restore in every source state", r, map[string]any{"cuts": false})
	cdepth := c.Pick(3, 4)
	r2 := explore.BFS(explore.BFSConfig{Ops: len(alphabet), Depth: cdepth, Workers: 16, OpName: func(i int) string { return alphabet[i].name }},
		func(seq []int) explore.StepResult { return run(t, alphabet, seq, "inmem", true, false) })
	c.AddBFS("restore from a stream cut at every tar boundary", r2, map[string]any{"cuts": true})
	edepth := c.Pick(4, 5)
	r3 := explore.BFS(explore.BFSConfig{Ops: len(alphabet), Depth: edepth, Workers: 16, OpName: func(i int) string { return alphabet[i].name }},
		func(seq []int) explore.StepResult { return run(t, alphabet, seq, "inmem", false, true) })
	c.AddBFS("time-bounded backup of every range in every source state", r3, map[string]any{"exports": true})
	racePart(t, c)
	for _, index := range []string{"inmem", "tsi1"} {
		v, s, n := wideShard(index, 10050)
		c.AddCount("wide shard ("+index+" source)", int64(n), map[string]bool{"wide-copy-paths": true}, true, nil)
		if v != "" {
			c.Violation(s, v, map[string]any{"scenario": "wide", "config": map[string]any{"index": index}})
		}
	}
	report.ExitCode = c.Finish()
}

func TestMain(m *testing.M) { flag.Parse(); report.Main(m.Run) }
