package c18

// Time-bounded backups (Store.ExportShard) and the wide-shard scenario.

import (
	"bytes"
	"fmt"
	"os"
	"time"

	"github.com/influxdata/influxql"

	ek "verif/harness/enginekit"
)

// exportBounds: every [start,end] over the timestamps the alphabet writes (1..5) and their neighbours.
func exportBounds() [][2]int64 {
	var out [][2]int64
	for s := int64(0); s <= 6; s++ {
		for e := s; e <= 6; e++ {
			out = append(out, [2]int64{s, e})
		}
	}
	return out
}

// exportAndCheck exports [start,end] from the source and restores it into a
// fresh store: inside the range the copy must hold exactly the source's points
// with their values (a filtered backup carries whole blocks, so what the copy
// holds outside the range is not compared).
func exportAndCheck(env *ek.Env, m *ek.Model, start, end int64, index string, online bool) (viol, sig string) {
	var buf bytes.Buffer
	if err := env.Store.ExportShard(ek.ShardID, time.Unix(0, start), time.Unix(0, end), &buf); err != nil {
		return fmt.Sprintf("time-bounded backup [%d,%d] failed: %v", start, end, err), "export:error"
	}
	dir := ek.NewTempDir("c18x")
	defer os.RemoveAll(dir)
	dst := &ek.Env{Dir: dir, IndexType: index, BlockSize: 2, WAL: true}
	if err := dst.Open(); err != nil {
		return "open destination: " + err.Error(), "open-error"
	}
	defer dst.Close()
	var err error
	if online {
		err = dst.Store.ImportShard(ek.ShardID, &buf)
	} else {
		err = dst.Store.RestoreShard(ek.ShardID, &buf)
	}
	if err != nil {
		return fmt.Sprintf("restore of the time-bounded backup [%d,%d] failed: %v", start, end, err), "export:restore-error"
	}
	dst.Shard = dst.Store.Shard(ek.ShardID)
	for _, s := range universe {
		for f := range fieldTypes {
			got, err := dst.ReadCursor(s, f, influxql.MinTime, influxql.MaxTime, true)
			if err != nil {
				return fmt.Sprintf("read of %s.%s on the copy failed: %v", s.Key(), f, err), "export:read-error"
			}
			have := map[int64]ek.Val{}
			for _, tv := range got {
				have[tv.T] = tv.V
			}
			want := m.Data[s.Key()][f]
			for t, v := range want {
				if t < start || t > end {
					continue
				}
				g, ok := have[t]
				if !ok {
					return fmt.Sprintf("time-bounded backup [%d,%d]: point %s.%s@%d=%s of the source is missing from the restored copy (copy has %v)", start, end, s.Key(), f, t, v, got), "export:missing-point"
				}
				if g.String() != v.String() {
					return fmt.Sprintf("time-bounded backup [%d,%d]: point %s.%s@%d is %s in the copy, %s in the source", start, end, s.Key(), f, t, g, v), "export:wrong-value"
				}
			}
			for t, g := range have {
				if t < start || t > end {
					continue // whole blocks are carried: what lies outside the requested range is not compared
				}
				if _, ok := want[t]; !ok {
					return fmt.Sprintf("time-bounded backup [%d,%d]: the copy holds %s.%s@%d=%s which the source does not have", start, end, s.Key(), f, t, g), "export:extra-points"
				}
			}
		}
	}
	return "", ""
}

// wideShard: a shard with more series keys than one index batch of a restore
// (10000) is copied by every path; every series must be readable on the copy.
func wideShard(index string, n int) (viol, sig string, evals int) {
	dir := ek.NewTempDir("c18w")
	defer os.RemoveAll(dir)
	src := &ek.Env{Dir: dir, IndexType: index, WAL: true}
	if err := src.Open(); err != nil {
		return "open: " + err.Error(), "open-error", 0
	}
	defer src.Close()
	var pts []ek.Point
	for i := 0; i < n; i++ {
		pts = append(pts, ek.Point{S: ek.Series{Measurement: "cpu", Tags: map[string]string{"host": fmt.Sprintf("h%05d", i)}}, Field: "f", T: 1, V: fv(float64(i))})
	}
	if err := src.Write(pts[:10]); err != nil {
		return "write: " + err.Error(), "write-error", 0
	}
	var old bytes.Buffer
	if err := src.Store.BackupShard(ek.ShardID, time.Time{}, &old); err != nil {
		return "backup failed: " + err.Error(), "backup-error", 0
	}
	if err := src.Write(pts[10:]); err != nil {
		return "write: " + err.Error(), "write-error", 0
	}
	var full bytes.Buffer
	if err := src.Store.BackupShard(ek.ShardID, time.Time{}, &full); err != nil {
		return "backup failed: " + err.Error(), "backup-error", 0
	}
	for _, path := range []string{"restore into an empty shard", "online import", "restore over an older copy"} {
		for _, dindex := range []string{"inmem", "tsi1"} {
			evals++
			v := func() string {
				ddir := ek.NewTempDir("c18wd")
				defer os.RemoveAll(ddir)
				dst := &ek.Env{Dir: ddir, IndexType: dindex, WAL: true}
				if err := dst.Open(); err != nil {
					return "open destination: " + err.Error()
				}
				defer dst.Close()
				var err error
				switch path {
				case "restore into an empty shard":
					err = dst.Store.RestoreShard(ek.ShardID, bytes.NewReader(full.Bytes()))
				case "online import":
					err = dst.Store.ImportShard(ek.ShardID, bytes.NewReader(full.Bytes()))
				case "restore over an older copy":
					if err = dst.Store.RestoreShard(ek.ShardID, bytes.NewReader(old.Bytes())); err == nil {
						err = dst.Store.RestoreShard(ek.ShardID, bytes.NewReader(full.Bytes()))
					}
				}
				if err != nil {
					return "restore failed: " + err.Error()
				}
				dst.Shard = dst.Store.Shard(ek.ShardID)
				got, err := dst.ReadField("cpu", "f", influxql.Float, []string{"host"}, influxql.MinTime, influxql.MaxTime, true)
				if err != nil {
					return "read failed: " + err.Error()
				}
				if len(got) != n {
					missing := ""
					for i := 0; i < n && missing == ""; i++ {
						found := false
						for k := range got {
							if k == fmt.Sprintf("host=h%05d", i) || k == fmt.Sprintf("h%05d", i) {
								found = true
							}
						}
						if !found && len(got) > n-50 {
							missing = fmt.Sprintf(" (first missing: host=h%05d)", i)
						}
						if len(got) <= n-50 {
							break
						}
					}
					return fmt.Sprintf("the copy answers a read over all series with %d series, the source has %d%s", len(got), n, missing)
				}
				return ""
			}()
			if v != "" {
				return fmt.Sprintf("%d series, %s, destination index %s: %s", n, path, dindex, v), "wide-copy:" + path, evals
			}
		}
	}
	return "", "", evals
}
