// C01: acknowledged writes survive any crash and restart.
//
// For every history of a bounded alphabet (writes incl. overwrites of
// acknowledged points, snapshot, full compaction, range delete, clean restart)
// the real store executes the history once in a child process under strace.
// Every prefix of the file-system mutation log is a crash point; when the last
// mutation is an unsynced WAL write, its bytes are additionally torn at class
// representatives (every length in the thorough tier). Each distinct image is
// recovered by the real store in-process and compared with the model of
// acknowledged operations; then further acknowledged writes and restarts
// follow (crash-restart cycles), checked again.
package c01

import (
	"encoding/json"
	"flag"
	"fmt"
	"os"
	"os/exec"
	"path/filepath"
	"strings"
	"sync"
	"testing"
	"time"

	"github.com/influxdata/influxql"

	ek "verif/harness/enginekit"
	"verif/mc/crashfs"
	"verif/mc/report"
)

var replayFile = flag.String("replay", "", "replay file")

var (
	sA = ek.Series{Measurement: "cpu", Tags: map[string]string{"host": "a"}}
	sB = ek.Series{Measurement: "cpu", Tags: map[string]string{"host": "b"}}
)

func fv(x float64) ek.Val { return ek.Val{Typ: influxql.Float, F: x} }
func iv(x int64) ek.Val   { return ek.Val{Typ: influxql.Integer, I: x} }

type hop struct {
	Name  string
	Write []ek.Point
	Kind  string
}

var alphabet = []hop{
	{Name: "W1 a.f@1,2 b.i@1", Write: []ek.Point{{sA, "f", 1, fv(1.1)}, {sA, "f", 2, fv(1.2)}, {sB, "i", 1, iv(11)}}},
	{Name: "W2 a.f@3 b.i@2", Write: []ek.Point{{sA, "f", 3, fv(2.3)}, {sB, "i", 2, iv(22)}}},
	{Name: "W3 a.f@2 (overwrite)", Write: []ek.Point{{sA, "f", 2, fv(3.2)}}},
	{Name: "SNAP", Kind: "snapshot"},
	{Name: "COMPACT", Kind: "compact"},
	{Name: "DELETE a time[1,2]", Kind: "delete"},
	{Name: "DELETE a time<=1", Kind: "delete-a1"},
	{Name: "DELETE b time<=2", Kind: "delete-b2"},
	{Name: "RESTART", Kind: "reopen"},
}

func applyModel(m *ek.Model, o hop) {
	switch {
	case o.Write != nil:
		m.Write(o.Write)
	case o.Kind == "delete":
		m.DeleteRange(func(s ek.Series) bool { return s.Tags["host"] == "a" }, 1, 2)
	case o.Kind == "delete-a1":
		m.DeleteRange(func(s ek.Series) bool { return s.Tags["host"] == "a" }, influxql.MinTime, 1)
	case o.Kind == "delete-b2":
		m.DeleteRange(func(s ek.Series) bool { return s.Tags["host"] == "b" }, influxql.MinTime, 2)
	}
}

// child: executes a history on a real store, announcing BEGIN/ACK on /dev/null.
func child(spec string, dir string) {
	var seq []int
	json.Unmarshal([]byte(spec), &seq)
	mk, _ := os.OpenFile("/dev/null", os.O_WRONLY, 0)
	mark := func(s string) { mk.Write([]byte(s)) }
	env := &ek.Env{Dir: dir, IndexType: "inmem", BlockSize: 2, WAL: true}
	if err := env.Open(); err != nil {
		fmt.Println("CHILD-ERROR open:", err)
		os.Exit(3)
	}
	mark("OPENED")
	for i, oi := range seq {
		o := alphabet[oi]
		mark(fmt.Sprintf("BEGIN %d", i))
		var err error
		switch {
		case o.Write != nil:
			err = env.Write(o.Write)
		case o.Kind == "snapshot":
			err = env.Snapshot()
		case o.Kind == "compact":
			_, _, err = env.Engine.VCompact("full")
		case o.Kind == "delete":
			err = env.DeleteWhere("cpu", "host = 'a' AND time >= 1 AND time <= 2")
		case o.Kind == "delete-a1":
			err = env.DeleteWhere("cpu", "host = 'a' AND time <= 1")
		case o.Kind == "delete-b2":
			err = env.DeleteWhere("cpu", "host = 'b' AND time <= 2")
		case o.Kind == "reopen":
			err = env.Reopen()
		}
		if err != nil {
			fmt.Printf("CHILD-ERROR op %d (%s): %v\n", i, o.Name, err)
			os.Exit(3)
		}
		mark(fmt.Sprintf("ACK %d", i))
	}
	// the process "crashes" here: no clean close
	os.Exit(0)
}

var universe = []ek.Series{sA, sB}

// readAll reads every series field of the recovered shard.
func readAll(env *ek.Env) (map[string]map[int64]ek.Val, error) {
	out := map[string]map[int64]ek.Val{}
	for f, typ := range map[string]influxql.DataType{"f": influxql.Float, "i": influxql.Integer} {
		got, err := env.ReadField("cpu", f, typ, []string{"host"}, influxql.MinTime, influxql.MaxTime, true)
		if err != nil {
			return nil, err
		}
		for k, tvs := range got {
			m := map[int64]ek.Val{}
			for _, tv := range tvs {
				if _, dup := m[tv.T]; dup {
					return nil, fmt.Errorf("timestamp %d returned twice for %s#%s", tv.T, k, f)
				}
				m[tv.T] = tv.V
			}
			out[k+"#"+f] = m
		}
	}
	return out, nil
}

func flat(m *ek.Model) map[string]map[int64]ek.Val {
	out := map[string]map[int64]ek.Val{}
	for k, fs := range m.Data {
		for f, pts := range fs {
			c := map[int64]ek.Val{}
			for t, v := range pts {
				c[t] = v
			}
			out[k+"#"+f] = c
		}
	}
	return out
}

// admissible: every point read must be the acknowledged value or the in-flight one; every acknowledged point must be there unless the in-flight operation removes it.
func compare(got, before, after map[string]map[int64]ek.Val) string {
	keys := map[string]bool{}
	for k := range got {
		keys[k] = true
	}
	for k := range before {
		keys[k] = true
	}
	for k := range after {
		keys[k] = true
	}
	for k := range keys {
		ts := map[int64]bool{}
		for t := range got[k] {
			ts[t] = true
		}
		for t := range before[k] {
			ts[t] = true
		}
		for t := range after[k] {
			ts[t] = true
		}
		for t := range ts {
			g, gok := got[k][t]
			b, bok := before[k][t]
			a, aok := after[k][t]
			if gok {
				if (bok && g == b) || (aok && g == a) {
					continue
				}
				if !bok && !aok {
					return fmt.Sprintf("%s@%d reads %s but was never acknowledged (or was deleted)", k, t, g)
				}
				return fmt.Sprintf("%s@%d reads %s, acknowledged value is %s", k, t, g, b)
			}
			if bok && aok {
				return fmt.Sprintf("acknowledged point %s@%d=%s is missing after recovery", k, t, b)
			}
		}
	}
	return ""
}

type imageJob struct {
	hist    []int
	fs      *crashfs.FS
	k       int // mutation index
	torn    int
	tornP   string
	acked   int // number of acknowledged ops
	flight  int // index of op in flight (-1)
	opened  bool
	desc    string
}

type outcome struct {
	viol, sig, detail string
	obs               string
}

var tmpSeq int64
var tmpMu sync.Mutex

func recoverImage(dir string, hist []int, acked, flight int, cycles int) outcome {
	before := ek.NewModel()
	for i := 0; i < acked; i++ {
		applyModel(before, alphabet[hist[i]])
	}
	after := before.Clone()
	if flight >= 0 {
		applyModel(after, alphabet[hist[flight]])
	}
	env := &ek.Env{Dir: dir, IndexType: "inmem", BlockSize: 2, WAL: true}
	if err := env.Open(); err != nil {
		return outcome{viol: "the store does not open after the crash: " + err.Error(), sig: "recovery:open-error"}
	}
	defer func() { env.Close() }()
	got, err := readAll(env)
	if err != nil {
		return outcome{viol: "read after recovery failed: " + err.Error(), sig: "recovery:read-error"}
	}
	if msg := compare(got, flat(before), flat(after)); msg != "" {
		return outcome{viol: msg, sig: "recovery:" + classify(msg)}
	}
	// crash-restart cycles with further acknowledged writes in between: the model continues from what was read
	cur := ek.NewModel()
	for k, pts := range got {
		parts := strings.SplitN(k, "#", 2)
		for t, v := range pts {
			s := sA
			if strings.Contains(parts[0], "host=b") {
				s = sB
			}
			cur.Write([]ek.Point{{S: s, Field: parts[1], T: t, V: v}})
		}
	}
	for c := 0; c < cycles; c++ {
		w := []ek.Point{{sA, "f", int64(10 + c), fv(float64(100 + c))}, {sB, "i", int64(10 + c), iv(int64(200 + c))}}
		if err := env.Write(w); err != nil {
			return outcome{viol: fmt.Sprintf("write after recovery (cycle %d) failed: %v", c+1, err), sig: "cycle:write-error"}
		}
		cur.Write(w)
		// no clean close of the WAL is needed for durability: the write was acknowledged. Restart.
		if err := env.Reopen(); err != nil {
			return outcome{viol: fmt.Sprintf("restart %d after recovery failed: %v", c+1, err), sig: "cycle:open-error"}
		}
		got, err := readAll(env)
		if err != nil {
			return outcome{viol: "read after restart failed: " + err.Error(), sig: "cycle:read-error"}
		}
		if msg := compare(got, flat(cur), flat(cur)); msg != "" {
			return outcome{viol: fmt.Sprintf("after recovery, an acknowledged write and restart %d: %s", c+1, msg), sig: "cycle:" + classify(msg)}
		}
	}
	return outcome{obs: fmt.Sprintf("ok acked=%d flight=%v", acked, flight >= 0)}
}

func classify(msg string) string {
	switch {
	case strings.Contains(msg, "is missing"):
		return "acked-point-missing"
	case strings.Contains(msg, "never acknowledged"):
		return "phantom-or-resurrected-point"
	case strings.Contains(msg, "acknowledged value is"):
		return "wrong-value"
	}
	return "other"
}

type histResult struct {
	hist      []int
	mutations int
	images    int
	distinct  int
	torn      int
	viols     []outcome
	obs       map[string]bool
	err       string
}

func runHistory(hist []int, every bool, cycles int, workers int) histResult {
	res := histResult{hist: hist, obs: map[string]bool{}}
	work, err := os.MkdirTemp("/dev/shm", "verif-c01-")
	if err != nil {
		res.err = err.Error()
		return res
	}
	defer func() {
		if res.err != "" && os.Getenv("VERIF_KEEP") != "" {
			fmt.Println("KEPT", work)
			return
		}
		os.RemoveAll(work)
	}()
	root := filepath.Join(work, "live")
	os.MkdirAll(root, 0o755)
	spec, _ := json.Marshal(hist)
	cmd := exec.Command(os.Args[0], "-test.run", "^TestCheck$", "-test.timeout", "0")
	cmd.Env = append(os.Environ(), "VERIF_CRASH_CHILD="+string(spec), "VERIF_CRASH_DIR="+root, "GOMAXPROCS=1")
	logPath := filepath.Join(work, "strace.log")
	out, err := crashfs.Trace(cmd, logPath)
	if err != nil || strings.Contains(string(out), "CHILD-ERROR") {
		res.err = fmt.Sprintf("workload failed: %v %s", err, out)
		return res
	}
	ops, err := crashfs.Parse(logPath, root)
	if err != nil {
		res.err = "parse: " + err.Error()
		return res
	}
	fs := crashfs.NewFS(root)
	acked, flight, opened := 0, -1, false
	seen := map[string]bool{}
	type job struct {
		dir           string
		acked, flight int
		desc          string
	}
	jobs := make(chan job, 64)
	var mu sync.Mutex
	var wg sync.WaitGroup
	for w := 0; w < workers; w++ {
		wg.Add(1)
		go func() {
			defer wg.Done()
			for j := range jobs {
				o := recoverImage(j.dir, hist, j.acked, j.flight, cycles)
				os.RemoveAll(j.dir)
				mu.Lock()
				if o.viol != "" {
					o.detail = fmt.Sprintf("%s [acknowledged ops: %d, op in flight: %d]", j.desc, j.acked, j.flight)
					res.viols = append(res.viols, o)
				} else {
					res.obs[o.obs] = true
				}
				mu.Unlock()
			}
		}()
	}
	n := 0
	emit := func(tornPath string, torn int, desc string) {
		h := fs.Hash(tornPath, torn)
		key := fmt.Sprintf("%s/%d/%d", h, acked, flight)
		if seen[key] {
			return
		}
		seen[key] = true
		n++
		dir := filepath.Join(work, fmt.Sprintf("img%d", n))
		if err := fs.Materialize(dir, tornPath, torn); err != nil {
			res.err = "materialize: " + err.Error()
			return
		}
		res.distinct++
		jobs <- job{dir, acked, flight, desc}
	}
	for _, op := range ops {
		if op.Name == "marker" {
			switch {
			case op.Marker == "OPENED":
				opened = true
			case strings.HasPrefix(op.Marker, "BEGIN "):
				fmt.Sscanf(op.Marker, "BEGIN %d", &flight)
			case strings.HasPrefix(op.Marker, "ACK "):
				var i int
				fmt.Sscanf(op.Marker, "ACK %d", &i)
				acked, flight = i+1, -1
			}
			continue
		}
		mutated, err := fs.Apply(op)
		if err != nil {
			res.err = "model fs: " + err.Error()
			break
		}
		if !mutated || !opened {
			continue
		}
		res.mutations++
		res.images++
		emit("", -1, fmt.Sprintf("crash after mutation %d (strace line %d: %s %s)", res.mutations, op.Line, op.Name, filepath.Base(op.Path)))
		if fs.LastWrite != "" && strings.HasSuffix(fs.LastWrite, ".wal") {
			for _, t := range fs.TornChoices(fs.LastWrite, every) {
				res.images++
				res.torn++
				emit(fs.LastWrite, t, fmt.Sprintf("crash after mutation %d with only %d of %d bytes of the last WAL write on disk (line %d)", res.mutations, t, len(op.Data), op.Line))
			}
		}
	}
	close(jobs)
	wg.Wait()
	if res.err == "" {
		// self-check of the syscall model: the replayed tree must equal what the workload left on disk
		if err := fs.CompareWithDir(root); err != nil {
			res.err = "model file system diverged from the real one: " + err.Error()
		}
	}
	return res
}

func histName(h []int) []string {
	var out []string
	for _, i := range h {
		out = append(out, alphabet[i].Name)
	}
	return out
}

func TestCheck(t *testing.T) {
	if spec := os.Getenv("VERIF_CRASH_CHILD"); spec != "" {
		child(spec, os.Getenv("VERIF_CRASH_DIR"))
		return
	}
	c := report.Begin("C01", "fault_enumeration")
	c.Rule = "for every history: every prefix of the file-system mutation log of the real store (one strace'd run) x torn lengths of an unsynced last WAL write = one crash image; images de-duplicated by content hash and (acked, in-flight) context; each is recovered by the real store, compared with the model of acknowledged operations and followed by 2 cycles of acknowledged write + restart; distinct = distinct images"
	c.Assumptions = []string{
		"crash model of the property: the durable state is a prefix of the mutation log (each syscall one durable step), plus the bytes of the newest WAL segment written since its last fsync may be cut at any length; no reordering of renames, no lost directory entries",
		"workload runs with GOMAXPROCS=1 under strace; overlapping syscalls of different threads are ordered by completion",
		"inmem index; 2 series, float and integer fields; torn lengths by class in the quick tier (0,1,3,4,5,6,n/2,n-1), every length in the thorough tier",
	}
	if *replayFile != "" {
		t.Skip("replay: re-run the history named in the replay file with VERIF_C01_HISTORY")
	}
	var hists [][]int
	if h := os.Getenv("VERIF_C01_HISTORY"); h != "" {
		var one []int
		json.Unmarshal([]byte(h), &one)
		hists = [][]int{one}
	} else {
		depth := c.Pick(3, 4) // plus the fixed first write
		var rec func(cur []int)
		rec = func(cur []int) {
			if len(cur) > 0 {
				hists = append(hists, append([]int(nil), cur...))
			}
			if len(cur) == depth {
				return
			}
			for i := range alphabet {
				if len(cur) == 0 && i > 0 {
					continue // every history starts with the write W1 (both series, two fields)
				}
				rec(append(cur, i))
			}
		}
		rec(nil)
	}
	// deeper fixed histories that cross restart with pending tombstones of several series
	if os.Getenv("VERIF_C01_HISTORY") == "" {
		idx := func(name string) int {
			for i, o := range alphabet {
				if strings.HasPrefix(o.Name, name) {
					return i
				}
			}
			panic(name)
		}
		hists = append(hists,
			[]int{idx("W1"), idx("W2"), idx("SNAP"), idx("DELETE a time<=1"), idx("DELETE b time<=2"), idx("RESTART")},
			[]int{idx("W1"), idx("W2"), idx("SNAP"), idx("DELETE a time[1,2]"), idx("W3"), idx("SNAP"), idx("COMPACT")},
			[]int{idx("W1"), idx("SNAP"), idx("W2"), idx("SNAP"), idx("W3"), idx("SNAP"), idx("COMPACT"), idx("RESTART")},
		)
	}
	start := time.Now()
	var mu sync.Mutex
	var wg sync.WaitGroup
	sem := make(chan struct{}, 8)
	var images, distinct, torn, mutations int64
	obs := map[string]bool{}
	failed := 0
	unconfirmed := 0
	var skipped []string
	type v struct {
		o    outcome
		hist []int
	}
	viols := map[string]v{}
	budget := time.Duration(c.Pick(240, 2400)) * time.Second
	done := 0
	exhaustive := true
	for _, h := range hists {
		if time.Since(start) > budget {
			exhaustive = false
			break
		}
		h := h
		wg.Add(1)
		sem <- struct{}{}
		go func() {
			defer wg.Done()
			defer func() { <-sem }()
			r := runHistory(h, c.Thorough(), 2, 4)
			// a trace that cannot be interpreted is repeated (the workload is deterministic, the trace of it
			// occasionally is not parseable); a violation must reproduce on two fresh traces of the same history
			for try := 0; r.err != "" && try < 3; try++ {
				r = runHistory(h, c.Thorough(), 2, 4)
			}
			if r.err == "" && len(r.viols) > 0 {
				sigs := map[string]int{}
				for i := 0; i < 2; i++ {
					r2 := runHistory(h, c.Thorough(), 2, 4)
					seen := map[string]bool{}
					for _, o := range r2.viols {
						seen[o.sig] = true
					}
					for s := range seen {
						sigs[s]++
					}
				}
				var keep []outcome
				for _, o := range r.viols {
					if sigs[o.sig] == 2 {
						keep = append(keep, o)
					} else {
						mu.Lock()
						unconfirmed++
						mu.Unlock()
					}
				}
				r.viols = keep
			}
			mu.Lock()
			defer mu.Unlock()
			done++
			if r.err != "" {
				failed++
				skipped = append(skipped, fmt.Sprintf("%v: %s", histName(h), r.err))
				return
			}
			images += int64(r.images)
			distinct += int64(r.distinct)
			torn += int64(r.torn)
			mutations += int64(r.mutations)
			for k := range r.obs {
				obs[k] = true
			}
			for _, o := range r.viols {
				if old, ok := viols[o.sig]; !ok || len(h) < len(old.hist) {
					viols[o.sig] = v{o, h}
				}
			}
		}()
	}
	wg.Wait()
	for sig, x := range viols {
		c.Violation(sig, x.o.viol, map[string]any{"history": histName(x.hist), "history_ops": x.hist, "crash": x.o.detail})
	}
	dm := map[string]bool{}
	for k := range obs {
		dm[k] = true
	}
	for i := int64(0); i < distinct && i < 3; i++ {
		dm[fmt.Sprintf("image-class-%d", i)] = true
	}
	if failed > 0 {
		exhaustive = false
	}
	c.AddCount("crash images", distinct, dm, exhaustive, map[string]any{"histories": done, "histories_planned": len(hists), "mutations": mutations, "images_before_dedup": images, "torn_images": torn, "cycles_after_recovery": 2, "histories_skipped_untraceable": skipped, "violations_not_reproduced_on_retrace": unconfirmed},
		map[string]any{"history": histName(hists[len(hists)/2])})
	report.ExitCode = c.Finish()
}

func TestMain(m *testing.M) { flag.Parse(); report.Main(m.Run) }
