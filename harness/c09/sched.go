package c09

// Abort points of C09: a full compaction in flight (started the way
// Engine.compactFull starts it, registered in the engine's compaction wait
// group) races SetCompactionsEnabled(false) - which aborts running compactions
// and waits for them - and a reader, under the controlled scheduler (every sync
// operation of the tsdb packages is a scheduling point, delay-bounded).
// Whatever the interleaving: the concurrent read and every read afterwards
// return exactly the model (snapshot + compaction never change reads), the
// file store holds either the original files or the compacted one, no
// temporary file is left once everything has ended, and the shard reopens to
// the same content.

import (
	"fmt"
	"os"
	"path/filepath"
	"strings"
	"testing"
	"testing/synctest"
	"time"

	"github.com/influxdata/influxdb/pkg/vsync"
	"github.com/influxdata/influxql"

	ek "verif/harness/enginekit"
	"verif/mc/explore"
	"verif/mc/report"
)

type abortScenario struct {
	name   string
	reader bool
	bound  [2]int
}

var abortScenarios = []abortScenario{
	{name: "full compaction in flight x SetCompactionsEnabled(false)", bound: [2]int{2, 3}}, // two deviations: into the compaction, and out of it mid-way
	{name: "full compaction in flight x SetCompactionsEnabled(false) x reader", reader: true, bound: [2]int{1, 2}},
}

var (
	abA = ek.Series{Measurement: "cpu", Tags: map[string]string{"host": "a"}}
	abB = ek.Series{Measurement: "cpu", Tags: map[string]string{"host": "b"}}
)

func abv(x float64) ek.Val { return ek.Val{Typ: influxql.Float, F: x} }

func abortBody(t *testing.T, sc abortScenario) func(tp *explore.Tape) explore.Outcome {
	return func(tp *explore.Tape) (out explore.Outcome) {
		dir := ek.NewTempDir("c09s")
		defer os.RemoveAll(dir)
		var res vsync.Result
		var viol, sig, layout string
		var readErr error
		var readGot map[string][]ek.TV
		// the abort starts after a chosen stretch of virtual time, i.e. at different stages of the compaction
		// (whose write rate limiter sleeps on the same clock)
		delays := []time.Duration{0, time.Millisecond, time.Second}
		delay := delays[tp.ChooseFree(len(delays), "abort-after")]
		synctest.Test(t, func(t *testing.T) {
			env := &ek.Env{Dir: dir, IndexType: "inmem", BlockSize: 2, WAL: true}
			if err := env.Open(); err != nil {
				panic(err)
			}
			defer env.Close()
			m := ek.NewModel()
			write := func(pts []ek.Point) {
				m.Write(pts)
				if err := env.Write(pts); err != nil {
					panic(err)
				}
			}
			// three files with overlapping and overwritten points, one tombstoned range, plus cache
			write([]ek.Point{{abA, "v", 1, abv(1)}, {abA, "v", 2, abv(2)}, {abA, "v", 3, abv(3)}, {abB, "v", 2, abv(20)}})
			env.Snapshot()
			write([]ek.Point{{abA, "v", 2, abv(22)}, {abA, "v", 4, abv(4)}, {abB, "v", 4, abv(40)}})
			env.Snapshot()
			m.DeleteRange(func(s ek.Series) bool { return s.Key() == abB.Key() }, 2, 2)
			if err := env.DeleteWhere("cpu", "host = 'b' AND time >= 2 AND time <= 2"); err != nil {
				panic(err)
			}
			write([]ek.Point{{abA, "v", 5, abv(5)}})
			env.Snapshot()
			write([]ek.Point{{abA, "v", 6, abv(6)}})
			before := len(env.Engine.FileStore.Files())
			threads := []func(){
				func() {
					if done := env.Engine.VCompactFullInFlight(); done != nil {
						<-done
					}
				},
				func() {
					if delay > 0 {
						time.Sleep(delay)
					}
					env.Engine.SetCompactionsEnabled(false)
				},
			}
			if sc.reader {
				threads = append(threads, func() {
					readGot, readErr = env.ReadField("cpu", "v", influxql.Float, []string{"host"}, influxql.MinTime, influxql.MaxTime, true)
				})
			}
			synctest.Wait()
			res = vsync.Run(func(n int, label string, preempt bool) int { return tp.Choose(n, label) },
				vsync.Config{Focus: []string{"github.com/influxdata/influxdb/tsdb"}}, threads...)
			if res.Deadlock || res.Livelock {
				out.Violation = fmt.Sprintf("deadlock=%v livelock=%v: %s", res.Deadlock, res.Livelock, strings.Join(res.Stuck, "; "))
				out.Sig = "abort:deadlock"
				out.Steps = res.Steps
				explore.Abort(tp, out)
			}
			layout = fmt.Sprintf("files %d->%d", before, len(env.Engine.FileStore.Files()))
			if sc.reader {
				if readErr != nil {
					viol, sig = "a read running while the compaction is aborted failed: "+readErr.Error(), "abort:concurrent-read-error"
					return
				}
				for _, s := range []ek.Series{abA, abB} {
					want := m.Data[s.Key()]["v"]
					got := readGot[s.Key()]
					if len(got) != len(want) {
						viol = fmt.Sprintf("a read running while the compaction is in flight / aborted returned %v for %s, the data is %v", got, s.Key(), want)
						sig = "abort:concurrent-read-differs"
						return
					}
					for _, tv := range got {
						if w, ok := want[tv.T]; !ok || w.String() != tv.V.String() {
							viol = fmt.Sprintf("a read running while the compaction is in flight / aborted returned %v for %s, the data is %v", got, s.Key(), want)
							sig = "abort:concurrent-read-differs"
							return
						}
					}
				}
			}
			check := func(when string) bool {
				if v, s := env.CheckReads(m, []ek.Series{abA, abB}, map[string]influxql.DataType{"v": influxql.Float}, []ek.Range{{influxql.MinTime, influxql.MaxTime, true}, {influxql.MinTime, influxql.MaxTime, false}, {2, 4, true}}, true); v != "" {
					viol, sig = when+" "+v, "abort:"+s
					return false
				}
				return true
			}
			if !check("after the aborted / completed compaction,") {
				return
			}
			if n := len(env.Engine.FileStore.Files()); n != before && n != 1 {
				viol, sig = fmt.Sprintf("the file store holds %d files: neither the %d original files nor the one compacted file", n, before), "abort:half-installed"
				return
			}
			tmp, _ := filepath.Glob(filepath.Join(dir, "data", ek.DB, ek.RP, "*", "*.tmp"))
			if len(tmp) > 0 {
				viol, sig = fmt.Sprintf("temporary files are left behind after the compaction ended: %v", tmp), "abort:tmp-files-left"
				return
			}
			env.Engine.SetCompactionsEnabled(true)
			if err := env.Reopen(); err != nil {
				viol, sig = "reopen failed: "+err.Error(), "abort:reopen-error"
				return
			}
			check("after a restart,")
		})
		out.Steps = res.Steps
		out.Obs = fmt.Sprintf("%s: %s", sc.name, layout)
		out.Detail = fmt.Sprintf("%s, abort after %s", sc.name, delay)
		out.Violation, out.Sig = viol, sig
		return out
	}
}

func findAbort(name string) (abortScenario, bool) {
	for _, s := range abortScenarios {
		if s.name == name {
			return s, true
		}
	}
	return abortScenario{}, false
}

func abortWorker(t *testing.T, scenario string) {
	sc, ok := findAbort(scenario)
	if !ok {
		t.Fatalf("unknown scenario %q", scenario)
	}
	explore.WorkerLoop(abortBody(t, sc))
}

func abortPart(t *testing.T, c *report.Check) {
	for _, sc := range abortScenarios {
		bound := sc.bound[0]
		if c.Thorough() {
			bound = sc.bound[1]
		}
		r := explore.ExploreProcs(explore.ProcConfig{Scenario: sc.name, Bound: bound, Procs: 16, Budget: 50, MaxExecs: int64(c.Pick(20000, 30000))})
		c.AddExplore(fmt.Sprintf("abort schedules: %s (delay bound %d)", sc.name, bound), r, map[string]any{"part": "abort", "scenario": sc.name, "bound": bound})
	}
}
