// C09: snapshot and compaction never change what reads return.
//
// Bounded-exhaustive enumeration of input file sets (real TSM files written
// with the real TSMWriter, tombstones with the real Tombstoner) x compaction
// mode (full, fast/optimize) x points-per-block, executed by the real
// Compactor and installed with the real FileStore.Replace. Logical content
// read through FileStore.KeyCursor must be identical before and after, equal
// to an independent newest-wins model, and the output files must hold sorted,
// non-overlapping blocks within the block size. Failure paths: a corrupted
// input block and a failing install leave the inputs in place and readable.
package c09

import (
	"bytes"
	"context"
	"flag"
	"fmt"
	"math"
	"os"
	"os/exec"
	"path/filepath"
	"sort"
	"strings"
	"sync"
	"syscall"
	"testing"
	"time"

	"github.com/influxdata/influxdb/models"
	"github.com/influxdata/influxdb/tsdb/engine/tsm1"

	"verif/mc/explore"
	"verif/mc/report"
)

var replayFile = flag.String("replay", "", "replay file")

// block lists per key per file: each inner slice is one block of timestamps
var keyAChoices = [][][]int64{nil, {{1, 2, 3}}, {{1, 2}, {3, 4}}, {{2, 5}}, {{4, 5, 6}}, {{1}, {6}}, {{3}}, {{1, 2, 3}, {4, 5, 6}}}
var keyBChoices = [][][]int64{nil, {{1, 2, 3}}, {{2, 5}}}

type tomb struct {
	name     string
	key      string
	min, max int64
}

var tombChoices = []tomb{{name: "none"}, {"A[2,4]", "A", 2, 4}, {"A[all]", "A", math.MinInt64, math.MaxInt64}, {"B[1,1]", "B", 1, 1}, {"A[5,6]", "A", 5, 6}}

const (
	keyA = "cpu,host=A#!~#value"
	keyB = "cpu,host=B#!~#value"
)

type fileSpec struct{ a, b, t int }

type scenario struct {
	files []fileSpec
	mode  string // full | fast
	size  int
	typ   string // float | integer | string | boolean | unsigned
	fault string // "", "corrupt-block", "replace-error"
}

func (s scenario) String() string {
	var fs []string
	for _, f := range s.files {
		fs = append(fs, fmt.Sprintf("{A:%v B:%v tomb:%s}", keyAChoices[f.a], keyBChoices[f.b], tombChoices[f.t].name))
	}
	return fmt.Sprintf("files=%s mode=%s size=%d type=%s fault=%s", strings.Join(fs, " "), s.mode, s.size, s.typ, s.fault)
}

func mkValue(typ string, t int64, file int) tsm1.Value {
	switch typ {
	case "integer":
		return tsm1.NewIntegerValue(t, int64(file*100)+t)
	case "unsigned":
		return tsm1.NewUnsignedValue(t, uint64(file*100)+uint64(t))
	case "string":
		return tsm1.NewStringValue(t, fmt.Sprintf("f%d-t%d", file, t))
	case "boolean":
		return tsm1.NewBooleanValue(t, (int64(file)+t)%2 == 0)
	}
	return tsm1.NewFloatValue(t, float64(file*100)+float64(t))
}

func valString(v tsm1.Value) string { return fmt.Sprintf("%d=%v", v.UnixNano(), v.Value()) }

// writeFile writes one TSM file (generation gen) and its tombstones.
func writeFile(dir string, gen int, spec fileSpec, typ string) (string, error) {
	if keyAChoices[spec.a] == nil && keyBChoices[spec.b] == nil {
		return "", nil
	}
	path := filepath.Join(dir, fmt.Sprintf("%09d-%09d.tsm", gen, 1))
	f, err := os.Create(path)
	if err != nil {
		return "", err
	}
	w, err := tsm1.NewTSMWriter(f)
	if err != nil {
		return "", err
	}
	for _, kb := range []struct {
		key    string
		blocks [][]int64
	}{{keyA, keyAChoices[spec.a]}, {keyB, keyBChoices[spec.b]}} {
		for _, blk := range kb.blocks {
			var vs []tsm1.Value
			for _, t := range blk {
				vs = append(vs, mkValue(typ, t, gen))
			}
			if err := w.Write([]byte(kb.key), vs); err != nil {
				return "", err
			}
		}
	}
	if err := w.WriteIndex(); err != nil {
		return "", err
	}
	if err := w.Close(); err != nil {
		return "", err
	}
	if tb := tombChoices[spec.t]; tb.key != "" {
		k := keyA
		if tb.key == "B" {
			k = keyB
		}
		ts := tsm1.NewTombstoner(path, nil)
		if err := ts.AddRange([][]byte{[]byte(k)}, tb.min, tb.max); err != nil {
			return "", err
		}
		if err := ts.Flush(); err != nil {
			return "", err
		}
	}
	return path, nil
}

// model: newest generation wins, tombstones of a file apply to that file's points only
func modelContent(s scenario) map[string][]string {
	out := map[string][]string{}
	for _, kc := range []struct {
		key string
		get func(fileSpec) [][]int64
		tag string
	}{{keyA, func(f fileSpec) [][]int64 { return keyAChoices[f.a] }, "A"}, {keyB, func(f fileSpec) [][]int64 { return keyBChoices[f.b] }, "B"}} {
		pts := map[int64]string{}
		for i, f := range s.files {
			gen := i + 1
			tb := tombChoices[f.t]
			for _, blk := range kc.get(f) {
				for _, t := range blk {
					if tb.key == kc.tag && t >= tb.min && t <= tb.max {
						continue
					}
					pts[t] = valString(mkValue(s.typ, t, gen)) // later files overwrite
				}
			}
		}
		var ts []int64
		for t := range pts {
			ts = append(ts, t)
		}
		sort.Slice(ts, func(i, j int) bool { return ts[i] < ts[j] })
		for _, t := range ts {
			out[kc.key] = append(out[kc.key], pts[t])
		}
	}
	return out
}

func readKey(fs *tsm1.FileStore, key string, typ string) ([]string, error) {
	var out []string
	c := fs.KeyCursor(context.Background(), []byte(key), models.MinNanoTime, true) // the engine seeks from influxql.MinTime, never from MinInt64
	defer c.Close()
	for {
		var vals []tsm1.Value
		var err error
		switch typ {
		case "integer":
			var b []tsm1.IntegerValue
			b, err = c.ReadIntegerBlock(&b)
			for _, v := range b {
				vals = append(vals, v)
			}
		case "unsigned":
			var b []tsm1.UnsignedValue
			b, err = c.ReadUnsignedBlock(&b)
			for _, v := range b {
				vals = append(vals, v)
			}
		case "string":
			var b []tsm1.StringValue
			b, err = c.ReadStringBlock(&b)
			for _, v := range b {
				vals = append(vals, v)
			}
		case "boolean":
			var b []tsm1.BooleanValue
			b, err = c.ReadBooleanBlock(&b)
			for _, v := range b {
				vals = append(vals, v)
			}
		default:
			var b []tsm1.FloatValue
			b, err = c.ReadFloatBlock(&b)
			for _, v := range b {
				vals = append(vals, v)
			}
		}
		if err != nil {
			return out, err
		}
		if len(vals) == 0 {
			return out, nil
		}
		for _, v := range vals {
			out = append(out, valString(v))
		}
		c.Next()
	}
}

func readAll(fs *tsm1.FileStore, typ string) (map[string][]string, error) {
	out := map[string][]string{}
	for _, k := range []string{keyA, keyB} {
		v, err := readKey(fs, k, typ)
		if err != nil {
			return nil, err
		}
		if len(v) > 0 {
			out[k] = v
		}
	}
	return out, nil
}

func same(a, b map[string][]string) bool {
	if len(a) != len(b) {
		return false
	}
	for k, v := range a {
		if strings.Join(v, " ") != strings.Join(b[k], " ") {
			return false
		}
	}
	return true
}

// checkOutputFormat verifies sorted, non-overlapping blocks within the size limit.
func checkOutputFormat(paths []string, size, maxInBlock int) string {
	limit := size
	if maxInBlock > limit {
		limit = maxInBlock
	}
	for _, p := range paths {
		f, err := os.Open(p)
		if err != nil {
			return "cannot open output: " + err.Error()
		}
		r, err := tsm1.NewTSMReader(f)
		if err != nil {
			return "output file is not a readable TSM file: " + err.Error()
		}
		it := r.BlockIterator()
		lastKey, lastMax := "", int64(math.MinInt64)
		first := true
		for it.Next() {
			key, minT, maxT, _, _, buf, err := it.Read()
			if err != nil {
				r.Close()
				return "output block unreadable: " + err.Error()
			}
			n, _ := tsm1.BlockCount(buf)
			if string(key) < lastKey {
				r.Close()
				return "keys of the output file are not sorted"
			}
			if string(key) == lastKey && !first && minT <= lastMax {
				r.Close()
				return fmt.Sprintf("blocks of key %s overlap or are unsorted in the output ([..%d] then [%d..])", key, lastMax, minT)
			}
			if n > limit {
				r.Close()
				return fmt.Sprintf("output block of key %s holds %d points, limit %d", key, n, limit)
			}
			lastKey, lastMax, first = string(key), maxT, false
		}
		r.Close()
	}
	return ""
}

type replaceFail struct{ *tsm1.FileStore }

func runScenario(s scenario) (viol, sig, obs string) {
	dir, err := os.MkdirTemp("/dev/shm", "verif-c09-")
	if err != nil {
		return "mkdtemp: " + err.Error(), "harness", ""
	}
	defer os.RemoveAll(dir)
	var inputs []string
	maxIn := 0
	for i, f := range s.files {
		p, err := writeFile(dir, i+1, f, s.typ)
		if err != nil {
			return "cannot build input: " + err.Error(), "harness", ""
		}
		if p != "" {
			inputs = append(inputs, p)
		}
		for _, b := range keyAChoices[f.a] {
			if len(b) > maxIn {
				maxIn = len(b)
			}
		}
		for _, b := range keyBChoices[f.b] {
			if len(b) > maxIn {
				maxIn = len(b)
			}
		}
	}
	if len(inputs) < 1 {
		return "", "", "skip"
	}
	fs := tsm1.NewFileStore(dir)
	if err := fs.Open(); err != nil {
		return "file store open: " + err.Error(), "harness", ""
	}
	defer fs.Close()
	want := modelContent(s)
	before, err := readAll(fs, s.typ)
	if err != nil {
		return "read before compaction failed: " + err.Error(), "read-error", ""
	}
	if !same(before, want) {
		return fmt.Sprintf("before compaction the file set reads %v, newest-wins minus tombstones gives %v", before, want), "read-before-differs", ""
	}
	if s.fault == "corrupt-block" {
		// flip a byte inside the first block of the first input (its CRC no longer matches)
		b, _ := os.ReadFile(inputs[0])
		b[5+4+2] ^= 0xff
		fs.Close()
		os.WriteFile(inputs[0], b, 0o644)
		fs = tsm1.NewFileStore(dir)
		if err := fs.Open(); err != nil {
			return "", "", "corrupt-input-refused-at-open"
		}
	}
	c := tsm1.NewCompactor()
	c.Dir = dir
	c.FileStore = fs
	c.Size = s.size
	c.Open()
	var outs []string
	if s.mode == "fast" {
		outs, err = c.CompactFast(inputs)
	} else {
		outs, err = c.CompactFull(inputs)
	}
	leftovers := func() string {
		es, _ := os.ReadDir(dir)
		var l []string
		for _, e := range es {
			if strings.HasSuffix(e.Name(), ".tmp") {
				l = append(l, e.Name())
			}
		}
		return strings.Join(l, ",")
	}
	if s.fault == "corrupt-block" {
		if err == nil {
			// the corrupted block may not have needed decoding (copied verbatim): fall through to the normal checks on content
			obs = "corrupt-block-copied"
		} else {
			if l := leftovers(); l != "" {
				return "failed compaction left temporary files behind: " + l, "failed-compaction-leaves-tmp", ""
			}
			for _, p := range inputs {
				if _, serr := os.Stat(p); serr != nil {
					return "failed compaction removed an input file: " + filepath.Base(p), "failed-compaction-removed-input", ""
				}
			}
			return "", "", "compaction-error-inputs-intact"
		}
	}
	if err != nil {
		return fmt.Sprintf("compaction failed: %v", err), "compaction-error", ""
	}
	if s.fault == "replace-error" {
		// install fails: an input file name that does not exist makes Replace fail after the compaction succeeded
		bogus := append([]string{filepath.Join(dir, "000000099-000000001.tsm")}, inputs...)
		rerr := fs.Replace(bogus, outs)
		after, err2 := readAll(fs, s.typ)
		if err2 != nil {
			return "read after a failed install failed: " + err2.Error(), "read-error-after-failed-install", ""
		}
		if !same(after, want) {
			return fmt.Sprintf("after an install attempt (err=%v) the file set reads %v, expected %v", rerr, after, want), "content-after-failed-install", ""
		}
		return "", "", fmt.Sprintf("install-attempt-err=%v", rerr != nil)
	}
	if msg := checkOutputFormat(outs, s.size, maxIn); msg != "" && obs != "corrupt-block-copied" {
		return msg, "output-format", ""
	}
	if obs == "corrupt-block-copied" {
		// the damaged block was copied verbatim: reads were already impossible before the compaction
		for _, o := range outs {
			os.Remove(o)
		}
		return "", "", obs
	}
	if err := fs.Replace(inputs, outs); err != nil {
		return "FileStore.Replace failed: " + err.Error(), "replace-error", ""
	}
	after, err := readAll(fs, s.typ)
	if err != nil {
		return "read after compaction failed: " + err.Error(), "read-error", ""
	}
	if !same(after, want) {
		return fmt.Sprintf("after %s compaction (size %d) the file set reads %v, before it read %v", s.mode, s.size, after, before), "compaction-changes-reads", ""
	}
	if l := leftovers(); l != "" {
		return "temporary files left after a successful compaction: " + l, "tmp-left", ""
	}
	if obs == "" {
		obs = fmt.Sprintf("ok-out=%d", len(outs))
	}
	return "", "", obs
}

func TestCheck(t *testing.T) {
	if sc := explore.WorkerScenario(); sc != "" {
		abortWorker(t, sc)
		return
	}
	c := report.Begin("C09", "model_checking")
	c.Rule = "every input file set (2 files quick / 3 thorough; per file 8 block layouts of key A x 3 of key B x 5 tombstone choices) x {full, fast} x block size {2,3,1000} x value types is compacted by the real Compactor and installed by the real FileStore; states = distinct scenarios, transitions = compactions; distinct = outcome classes"
	c.Assumptions = []string{
		"file sets are built directly with TSMWriter/Tombstoner (generation i = file i, one sequence per generation)",
		"abort points: a full compaction in flight x SetCompactionsEnabled(false) x reader under the controlled scheduler (sync operations of the tsdb packages are scheduling points, delay-bounded; sync/atomic and channels are not); reader-error and failed-install paths are enumerated on the file sets",
	}
	if *replayFile != "" {
		if rp, err := report.LoadReplay(*replayFile); err == nil && rp.Config["part"] == "abort" {
			if sc, ok := findAbort(rp.Config["scenario"]); ok {
				out, tp := explore.Replay(rp.Tape, abortBody(t, sc))
				fmt.Printf("replay %s\n%d choices\noutcome: %+v\n", sc.name, len(tp.Choices), out)
				if out.Violation != "" {
					report.ExitCode = 1
				}
				return
			}
		}
		t.Skip("replay: scenarios are self-describing in the replay file")
	}
	if os.Getenv("VERIF_C09_ONLY") == "abort" { // development aid
		abortPart(t, c)
		report.ExitCode = c.Finish()
		return
	}
	nfiles := c.Pick(2, 3)
	sizes := []int{2, 1000}
	if c.Thorough() {
		sizes = []int{2, 3, 1000}
	}
	var scenarios []scenario
	var specs []fileSpec
	for a := range keyAChoices {
		for b := range keyBChoices {
			for tb := range tombChoices {
				if !c.Thorough() && (b == 1 || tb == 3 || a == 6) {
					continue // quick tier: key B absent or [2,5]; no B tombstone
				}
				specs = append(specs, fileSpec{a, b, tb})
			}
		}
	}
	var rec func(cur []fileSpec)
	rec = func(cur []fileSpec) {
		if len(cur) == nfiles {
			for _, mode := range []string{"full", "fast"} {
				for _, size := range sizes {
					scenarios = append(scenarios, scenario{files: append([]fileSpec(nil), cur...), mode: mode, size: size, typ: "float"})
				}
			}
			return
		}
		for _, sp := range specs {
			if len(cur) == 2 && c.Thorough() && (sp.b != 0 || sp.t > 2) {
				continue // third file: key A only, fewer tombstone shapes (keeps the thorough tier under the hour)
			}
			rec(append(cur, sp))
		}
	}
	rec(nil)
	// other value types and fault paths on a thinner slice of the file sets
	base := len(scenarios)
	stride := c.Pick(17, 7)
	faultStride := stride
	if base/faultStride > 400 {
		faultStride = base / 400 // the corrupted-input child has a fixed deadline: at most about 400 fault scenarios
	}
	for i := 0; i < base; i += stride {
		s := scenarios[i]
		for _, typ := range []string{"integer", "unsigned", "string", "boolean"} {
			s2 := s
			s2.typ = typ
			scenarios = append(scenarios, s2)
		}
		for _, fault := range []string{"corrupt-block", "replace-error"} {
			if i%faultStride >= stride {
				continue
			}
			s2 := s
			s2.fault = fault
			scenarios = append(scenarios, s2)
		}
	}
	// corrupted-input scenarios run in a child process with an address-space limit and a deadline:
	// a compaction that spins on a decode error (allocating without bound) cannot be stopped in-process
	if os.Getenv("VERIF_C09_CHILD") == "" {
		var rest []scenario
		nfault := 0
		for _, s := range scenarios {
			if s.fault == "corrupt-block" {
				nfault++
				continue
			}
			rest = append(rest, s)
		}
		scenarios = rest
		cmd := exec.Command(os.Args[0], "-test.run", "^TestCheck$", "-test.timeout", "0")
		cmd.Env = append(os.Environ(), "VERIF_C09_CHILD=1", "VERIF_OUT=/dev/shm/verif-c09-child")
		cmd.Env = append(cmd.Env, "GOMAXPROCS=4") // few threads: the address-space limit also bounds thread stacks
		out, err := runLimited(cmd, 4<<30, 300*time.Second)
		runaway := func(out string, err error) bool {
			return err != nil && (strings.Contains(err.Error(), "deadline") || strings.Contains(out, "out of memory") || strings.Contains(out, "cannot allocate memory"))
		}
		for attempt := 0; err != nil && !runaway(out, err) && attempt < 2; attempt++ {
			// the child died for another reason (e.g. thread creation refused under the address-space limit
			// on a loaded machine): not what this scenario is about; run it again with more head room
			cmd = exec.Command(os.Args[0], "-test.run", "^TestCheck$", "-test.timeout", "0")
			cmd.Env = append(os.Environ(), "VERIF_C09_CHILD=1", "VERIF_OUT=/dev/shm/verif-c09-child", "GOMAXPROCS=4")
			out, err = runLimited(cmd, 12<<30, 300*time.Second)
		}
		if err != nil && !runaway(out, err) {
			c.InternalError("the child process running the corrupted-input scenarios failed for a reason other than its limits: %v: %.600s", err, out)
		} else if err != nil {
			tail := out
			if len(tail) > 600 {
				tail = tail[:600]
			}
			c.Violation("corrupt-input-compaction-runaway", fmt.Sprintf("compacting a file set with one corrupted block did not terminate within 300 s / 4 GB (%v): %s", err, tail), map[string]any{"scenarios": "fault=corrupt-block", "count": nfault})
		} else {
			childEvals, childDistinct := parseChild(out)
			c.AddCount("corrupted-input scenarios (child process, 4 GB / 300 s limits)", childEvals, childDistinct, true, nil, "one byte of the first block of the first input flipped")
			for _, line := range strings.Split(out, "\n") {
				if strings.HasPrefix(line, "CHILD-VIOLATION ") {
					parts := strings.SplitN(strings.TrimPrefix(line, "CHILD-VIOLATION "), "|", 3)
					if len(parts) == 3 {
						c.Violation(parts[0], parts[1], map[string]any{"scenario": parts[2]})
					}
				}
			}
		}
	} else {
		var only []scenario
		for _, s := range scenarios {
			if s.fault == "corrupt-block" {
				only = append(only, s)
			}
		}
		scenarios = only
	}
	var mu sync.Mutex
	distinct := map[string]bool{}
	var evals int64
	type v struct{ viol, sig, sc string }
	viols := map[string]v{}
	var wg sync.WaitGroup
	ch := make(chan scenario, 256)
	for w := 0; w < 16; w++ {
		wg.Add(1)
		go func() {
			defer wg.Done()
			for s := range ch {
				viol, sig, obs := runScenario(s)
				mu.Lock()
				if obs != "skip" {
					evals++
				}
				distinct[s.mode+"/"+obs] = true
				if viol != "" {
					if old, ok := viols[sig]; !ok || len(s.String()) < len(old.sc) {
						viols[sig] = v{viol, sig, s.String()}
					}
				}
				mu.Unlock()
			}
		}()
	}
	fed, capped := 0, ""
	feedStart := time.Now()
	for _, s := range scenarios {
		if c != nil && c.Thorough() && time.Since(feedStart) > 40*time.Minute {
			capped = fmt.Sprintf("deadline 40m reached after %d of %d scenarios", fed, len(scenarios))
			break
		}
		ch <- s
		fed++
	}
	close(ch)
	wg.Wait()
	if os.Getenv("VERIF_C09_CHILD") != "" {
		report.ExitCode = 0
		for _, x := range viols {
			fmt.Printf("CHILD-VIOLATION %s|%s|%s\n", x.sig, strings.ReplaceAll(x.viol, "\n", " "), x.sc)
		}
		var ds []string
		for d := range distinct {
			ds = append(ds, d)
		}
		fmt.Printf("CHILD-RESULT %d %s\n", evals, strings.Join(ds, ";"))
		return
	}
	for _, x := range viols {
		c.Violation(x.sig, x.viol, map[string]any{"scenario": x.sc})
	}
	enginePart(t, c)
	abortPart(t, c)
	extra := map[string]any{"files_per_set": nfiles, "scenarios": len(scenarios), "scenarios_run": fed}
	if capped != "" {
		extra["capped"] = capped
	}
	c.AddCount("file-sets x modes x sizes x types x faults", evals, distinct, capped == "", extra,
		scenarios[len(scenarios)/3].String(), scenarios[2*len(scenarios)/3].String())
	report.ExitCode = c.Finish()
}

func runLimited(cmd *exec.Cmd, memBytes uint64, d time.Duration) (string, error) {
	// the child limits its own address space (see init) through VERIF_RLIMIT_AS
	cmd.Env = append(cmd.Env, fmt.Sprintf("VERIF_RLIMIT_AS=%d", memBytes))
	var buf bytes.Buffer
	cmd.Stdout = &buf
	cmd.Stderr = &buf
	if err := cmd.Start(); err != nil {
		return "", err
	}
	done := make(chan error, 1)
	go func() { done <- cmd.Wait() }()
	select {
	case err := <-done:
		return buf.String(), err
	case <-time.After(d):
		cmd.Process.Kill()
		<-done
		return buf.String(), fmt.Errorf("deadline %s exceeded", d)
	}
}

func parseChild(out string) (int64, map[string]bool) {
	d := map[string]bool{}
	var n int64
	for _, line := range strings.Split(out, "\n") {
		if strings.HasPrefix(line, "CHILD-RESULT ") {
			f := strings.SplitN(strings.TrimPrefix(line, "CHILD-RESULT "), " ", 2)
			fmt.Sscan(f[0], &n)
			if len(f) > 1 {
				for _, x := range strings.Split(f[1], ";") {
					d["child:"+x] = true
				}
			}
		}
	}
	return n, d
}

func init() {
	if v := os.Getenv("VERIF_RLIMIT_AS"); v != "" {
		var n uint64
		fmt.Sscan(v, &n)
		syscall.Setrlimit(syscall.RLIMIT_AS, &syscall.Rlimit{Cur: n, Max: n})
	}
}

func TestMain(m *testing.M) { flag.Parse(); report.Main(m.Run) }
