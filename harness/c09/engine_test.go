package c09

import (
	"errors"
	"fmt"
	"os"
	"sync/atomic"
	"testing"
	"testing/synctest"
	"time"

	"github.com/influxdata/influxdb/tsdb"
	"github.com/influxdata/influxql"

	ek "verif/harness/enginekit"
	"verif/mc/explore"
	"verif/mc/report"
)

// Engine-level part: snapshots and compactions whose install step fails
// (FileStoreObserver refusing the new file) must leave reads unchanged, and a
// later retry must succeed.

type failObs struct{ fail atomic.Int32 }

func (o *failObs) FileFinishing(path string) error {
	if o.fail.Load() > 0 {
		o.fail.Add(-1)
		return errors.New("injected: cannot finish file")
	}
	return nil
}
func (o *failObs) FileUnlinking(path string) error { return nil }

var eA = ek.Series{Measurement: "cpu", Tags: map[string]string{"host": "a"}}

type eop struct {
	name  string
	write []ek.Point
	kind  string
}

func fv(x float64) ek.Val { return ek.Val{Typ: influxql.Float, F: x} }

var engineOps = []eop{
	{name: "write f@1,2,3", write: []ek.Point{{eA, "f", 1, fv(1.1)}, {eA, "f", 2, fv(1.2)}, {eA, "f", 3, fv(1.3)}}},
	{name: "write f@2,5 (overwrite)", write: []ek.Point{{eA, "f", 2, fv(9.2)}, {eA, "f", 5, fv(9.5)}}},
	{name: "snapshot", kind: "snapshot"},
	{name: "snapshot, install fails", kind: "snapshot-fail"},
	{name: "compact full", kind: "compact"},
	{name: "compact full, install fails", kind: "compact-fail"},
	{name: "reopen", kind: "reopen"},
}

func runEngine(t *testing.T, seq []int) explore.StepResult {
	return explore.Guard(120*time.Second, func() (res explore.StepResult) {
		dir := ek.NewTempDir("c09e")
		defer os.RemoveAll(dir)
		synctest.Test(t, func(t *testing.T) {
			obs := &failObs{}
			env := &ek.Env{Dir: dir, IndexType: "inmem", BlockSize: 2, WAL: true, Configure: func(s *tsdb.Store) { s.EngineOptions.FileStoreObserver = obs }}
			if err := env.Open(); err != nil {
				res.Violation, res.Sig = "open: "+err.Error(), "open-error"
				return
			}
			defer env.Close()
			m := ek.NewModel()
			for i, oi := range seq {
				o := engineOps[oi]
				last := i == len(seq)-1
				switch o.kind {
				case "":
					m.Write(o.write)
					if err := env.Write(o.write); err != nil && last {
						res.Violation, res.Sig = "write failed: "+err.Error(), "write-error"
						return
					}
				case "snapshot", "snapshot-fail":
					if o.kind == "snapshot-fail" {
						obs.fail.Store(1)
					}
					err := env.Snapshot()
					failed := obs.fail.Load() == 0 && o.kind == "snapshot-fail"
					obs.fail.Store(0)
					if last {
						res.Obs = fmt.Sprintf("%s err=%v", o.kind, err != nil)
						if o.kind == "snapshot" && err != nil {
							res.Violation, res.Sig = "snapshot failed: "+err.Error(), "snapshot-error"
							return
						}
						if !failed && o.kind == "snapshot-fail" {
							res.Skip = true // nothing to snapshot: the fault was not reached
							return
						}
					}
				case "compact", "compact-fail":
					if o.kind == "compact-fail" {
						obs.fail.Store(1)
					}
					n, ok, err := env.Engine.VCompact("full")
					reached := obs.fail.Load() == 0 && o.kind == "compact-fail"
					obs.fail.Store(0)
					if last {
						res.Obs = fmt.Sprintf("%s groups=%d ok=%v", o.kind, n, ok)
						if n == 0 || (o.kind == "compact-fail" && !reached) {
							res.Skip = true
							return
						}
						if o.kind == "compact" && (err != nil || !ok) {
							res.Violation, res.Sig = fmt.Sprintf("compaction failed ok=%v err=%v", ok, err), "compaction-failed"
							return
						}
					}
				case "reopen":
					if err := env.Reopen(); err != nil {
						res.Violation, res.Sig = "reopen failed: "+err.Error(), "reopen-error"
						return
					}
				}
				if !last {
					continue
				}
				rs := []ek.Range{{influxql.MinTime, influxql.MaxTime, true}, {influxql.MinTime, influxql.MaxTime, false}, {2, 3, true}}
				if v, s := env.CheckReads(m, []ek.Series{eA}, map[string]influxql.DataType{"f": influxql.Float}, rs, true); v != "" {
					res.Violation, res.Sig = v+" (after "+o.name+")", "engine:"+s
					res.Detail = "layout: " + env.Engine.VLayout()
					return
				}
				es, _ := os.ReadDir(dir + "/data/" + ek.DB + "/" + ek.RP + "/1")
				for _, e := range es {
					if len(e.Name()) > 4 && e.Name()[len(e.Name())-4:] == ".tmp" && o.kind != "snapshot-fail" && o.kind != "compact-fail" {
						res.Violation, res.Sig = "temporary file left in the shard directory: "+e.Name(), "engine:tmp-left"
						return
					}
				}
				res.State = m.Dump() + "|" + env.Engine.VLayout()
			}
			if len(seq) == 0 {
				res.State = "empty"
			}
		})
		return res
	})
}

func enginePart(t *testing.T, c *report.Check) {
	depth := c.Pick(4, 5)
	r := explore.BFS(explore.BFSConfig{Ops: len(engineOps), Depth: depth, Workers: 16, OpName: func(i int) string { return engineOps[i].name }},
		func(seq []int) explore.StepResult { return runEngine(t, seq) })
	c.AddBFS("engine snapshot/compaction with failing install", r, map[string]any{"part": "engine"})
}
