// C06: cluster metadata is deterministic and keeps its invariants.
//
// Explicit-state BFS over sequences of real marshalled commands applied by the
// real storeFSM.Apply (store built without raft). After every transition:
// invariants on the new state, "a rejected command changes nothing", and
// replica determinism (a second replica applying the same log at a different
// wall-clock time, plus repeated re-application of node-removal transitions,
// whose owner reassignment iterates over a Go map).
package c06

import (
	"flag"
	"fmt"
	"strings"
	"sync"
	"testing"
	"testing/synctest"
	"time"

	"github.com/influxdata/influxdb/pkg/vrange"
	"github.com/influxdata/influxdb/services/meta"

	"verif/harness/metakit"
	"verif/mc/explore"
	"verif/mc/report"
)

var permMu sync.RWMutex

var replayFile = flag.String("replay", "", "replay file")

type base struct {
	name string
	pre  []metakit.Cmd
}

func replica(alpha []metakit.Cmd, pre []metakit.Cmd, seq []int, shift time.Duration) (fsm *meta.VerifFSM, lastErr interface{}, prevDump string, prev *meta.Data) {
	if shift > 0 {
		time.Sleep(shift)
	}
	fsm = meta.NewVerifFSM(true)
	idx := uint64(1)
	apply := func(c metakit.Cmd) interface{} {
		if c.Advance > 0 {
			time.Sleep(c.Advance)
			return nil
		}
		idx++
		return fsm.Apply(idx, 1, c.Data)
	}
	for _, c := range pre {
		apply(c)
	}
	for i, op := range seq {
		if i == len(seq)-1 {
			prevDump = metakit.Dump(fsm.Data(), 0)
			b, _ := fsm.Data().MarshalBinary()
			prev = &meta.Data{}
			prev.UnmarshalBinary(b)
		}
		lastErr = apply(alpha[op])
	}
	return
}

func TestCheck(t *testing.T) {
	c := report.Begin("C06", "model_checking")
	c.Rule = "states = canonical dumps of the real meta.Data (Index mod 6 kept) reached by BFS over real marshalled commands through storeFSM.Apply; each transition is checked for invariants, rejected-changes-nothing and replica determinism; distinct = states"
	c.Assumptions = []string{
		"storeFSM runs on a store built without raft (RemovePeer/CreateNode legacy commands, which call into raft, are outside the alphabet)",
		"Index influences behaviour only through Index mod len(DataNodes) with <=3 nodes, so states equal modulo 6 have equal futures",
		"iteration order of the owner-frequency map in DeleteDataNode is owned by an overlay rewrite (pkg/vrange): all 6 orders of <=3 keys are enumerated on node-removal transitions; other map ranges in services/meta do not influence replicated state (read from the code)",
		"deletion stamps are compared as booleans (they come from the applying replica's clock)",
	}
	level := 1
	alpha := metakit.Alphabet(level)
	bases := []base{
		{"empty", nil},
		{"populated(3 nodes, db a, rp x rf2, group@T0)", []metakit.Cmd{
			{Data: meta.VCreateDataNode("n1:8086", "n1:8088")}, {Data: meta.VCreateDataNode("n2:8086", "n2:8088")}, {Data: meta.VCreateDataNode("n3:8086", "n3:8088")},
			{Data: meta.VCreateDatabaseWithRP("a", "x", 2, 0, time.Hour)}, {Data: meta.VCreateShardGroup("a", "x", metakit.T0.UnixNano())},
			{Data: meta.VCreateUser("v", "hash3", false)},
		}},
	}
	bases = append(bases, base{"rf1(3 nodes, db a, rp x rf1, group@T0)", []metakit.Cmd{
		{Data: meta.VCreateDataNode("n1:8086", "n1:8088")}, {Data: meta.VCreateDataNode("n2:8086", "n2:8088")}, {Data: meta.VCreateDataNode("n3:8086", "n3:8088")},
		{Data: meta.VCreateDatabaseWithRP("a", "x", 1, 2 * time.Hour, time.Hour)}, {Data: meta.VCreateShardGroup("a", "x", metakit.T0.UnixNano())},
	}})
	depth := c.Pick(3, 4)
	for _, bs := range bases {
		bs := bs
		run := func(seq []int) (res explore.StepResult) {
			synctest.Test(t, func(t *testing.T) {
				permMu.RLock()
				locked := true
				defer func() {
					if locked {
						permMu.RUnlock()
					}
				}()
				a, err, prevDump, prev := replica(alpha, bs.pre, seq, 0)
				res.State = metakit.Dump(a.Data(), 6)
				if len(seq) == 0 {
					if v, s := metakit.Invariants(nil, a.Data()); v != "" {
						res.Violation, res.Sig = v, "inv:"+s
					}
					return
				}
				last := alpha[seq[len(seq)-1]]
				cur := metakit.Dump(a.Data(), 0)
				res.Obs = "applied"
				if err != nil {
					res.Obs = "rejected"
					if cur != prevDump {
						res.Violation = fmt.Sprintf("command %s was rejected (%v) but changed the metadata", last.Name, err)
						res.Sig = "rejected-changed-state"
						res.Detail = "before:\n" + prevDump + "\nafter:\n" + cur
						return
					}
				}
				if v, s := metakit.Invariants(prev, a.Data()); v != "" {
					res.Violation, res.Sig, res.Detail = v, "inv:"+s, "state:\n"+cur
					return
				}
				// replica determinism: same log, other wall-clock
				b, _, _, _ := replica(alpha, bs.pre, seq, time.Hour)
				if d := metakit.Dump(b.Data(), 0); d != cur {
					res.Violation = fmt.Sprintf("two replicas applying the same commands at different times differ after %s", last.Name)
					res.Sig = "replicas-differ:" + strings.SplitN(last.Name, "(", 2)[0]
					res.Detail = "replica A:\n" + cur + "\nreplica B:\n" + d
					return
				}
				// ... and under every iteration order of the owner-frequency map
				if strings.HasPrefix(last.Name, "DeleteDataNode") {
					permMu.RUnlock()
					locked = false
					permMu.Lock()
					defer permMu.Unlock()
					defer vrange.SetPerm(0)
					for p := 1; p < 6; p++ {
						vrange.SetPerm(p)
						b, _, _, _ := replica(alpha, bs.pre, seq, 0)
						if d := metakit.Dump(b.Data(), 0); d != cur {
							res.Violation = fmt.Sprintf("the result of %s depends on map iteration order (order %d of the owner-frequency map)", last.Name, p)
							res.Sig = "map-order:DeleteDataNode"
							res.Detail = "ascending order:\n" + cur + "\npermuted order:\n" + d
							return
						}
					}
				}
			})
			return res
		}
		if *replayFile != "" {
			seq, err := report.LoadTape(*replayFile)
			if err != nil {
				t.Fatal(err)
			}
			r := run(seq)
			fmt.Printf("replay on base %s: %v\n violation=%q sig=%q\n%s\n", bs.name, seq, r.Violation, r.Sig, r.Detail)
			if r.Violation != "" {
				report.ExitCode = 1
			}
			continue
		}
		r := explore.BFS(explore.BFSConfig{Ops: len(alpha), Depth: depth, Workers: 16, OpName: func(i int) string { return alpha[i].Name }}, run)
		c.AddBFS("fsm-apply base="+bs.name, r, map[string]any{"base": bs.name})
	}
	if *replayFile == "" {
		report.ExitCode = c.Finish()
	}
}

func TestMain(m *testing.M) { flag.Parse(); report.Main(m.Run) }
