// C02: reads equal a last-write-wins model of the shard.
//
// Explicit-state BFS over write batches (all five field types, duplicate,
// out-of-order and extreme timestamps, identical re-writes, a type-conflicting
// point), snapshot, level/full/optimize/planned compactions, range deletes and
// reopen on a real tsdb.Store (tsm1 engine, WAL on, 2 points per block). After
// every transition every series field is read over a boundary set of ranges in
// both directions through the InfluxQL iterator path and the storage cursor
// path and compared with the model.
package c02

import (
	"flag"
	"fmt"
	"os"
	"testing"
	"testing/synctest"
	"time"

	"github.com/influxdata/influxdb/models"
	"github.com/influxdata/influxdb/tsdb"
	"github.com/influxdata/influxql"

	ek "verif/harness/enginekit"
	"verif/mc/explore"
	"verif/mc/report"
)

var replayFile = flag.String("replay", "", "replay file")

var (
	sA = ek.Series{Measurement: "cpu", Tags: map[string]string{"host": "a"}}
	sB = ek.Series{Measurement: "cpu", Tags: map[string]string{"host": "b"}}
)

func fv(x float64) ek.Val { return ek.Val{Typ: influxql.Float, F: x} }
func iv(x int64) ek.Val   { return ek.Val{Typ: influxql.Integer, I: x} }
func uv(x uint64) ek.Val  { return ek.Val{Typ: influxql.Unsigned, I: int64(x)} }
func sv(x string) ek.Val  { return ek.Val{Typ: influxql.String, S: x} }
func bv(x bool) ek.Val    { return ek.Val{Typ: influxql.Boolean, B: x} }

type op struct {
	name  string
	write []ek.Point
	kind  string // snapshot, compact:<mode>, delete, reopen
	meas  string
	cond  string
	sel   func(ek.Series) bool
	min   int64
	max   int64
}

func ops() []op {
	all := func(ek.Series) bool { return true }
	hostA := func(s ek.Series) bool { return s.Tags["host"] == "a" }
	var big []ek.Point
	for t := int64(27); t >= 20; t-- { // descending, then every timestamp again with a newer value
		big = append(big, ek.Point{S: sA, Field: "f", T: t, V: fv(float64(t))})
	}
	for t := int64(20); t <= 27; t++ {
		big = append(big, ek.Point{S: sA, Field: "f", T: t, V: fv(float64(t) + 0.5)})
	}
	return []op{
		{name: "write A.f 16 points: 27..20 then 20..27 again (duplicates, out of order)", write: big},
		{name: "write A.f@1,2,3", write: []ek.Point{{sA, "f", 1, fv(1.1)}, {sA, "f", 2, fv(1.2)}, {sA, "f", 3, fv(1.3)}}},
		{name: "write A.f@2(overwrite),5", write: []ek.Point{{sA, "f", 2, fv(9.2)}, {sA, "f", 5, fv(9.5)}}},
		{name: "write A.f@4,1 (out of order, overwrite)", write: []ek.Point{{sA, "f", 4, fv(7.4)}, {sA, "f", 1, fv(7.1)}}},
		{name: "write A.f@1,2,3 again (identical)", write: []ek.Point{{sA, "f", 1, fv(1.1)}, {sA, "f", 2, fv(1.2)}, {sA, "f", 3, fv(1.3)}}},
		{name: "write B.f@2 B.i@2", write: []ek.Point{{sB, "f", 2, fv(2.2)}, {sB, "i", 2, iv(-22)}}},
		{name: "write A.i@3 A.s@3 A.b@3 A.u@3", write: []ek.Point{{sA, "i", 3, iv(33)}, {sA, "s", 3, sv("x\"y")}, {sA, "b", 3, bv(true)}, {sA, "u", 3, uv(1 << 63)}}},
		{name: "write A.f@6 as integer (type conflict) + B.f@6", write: []ek.Point{{sA, "f", 6, iv(66)}, {sB, "f", 6, fv(6.6)}}},
		{name: "write A.f@MinTime,MaxTime", write: []ek.Point{{sA, "f", models.MinNanoTime, fv(-1)}, {sA, "f", models.MaxNanoTime, fv(-2)}}},
		{name: "snapshot", kind: "snapshot"},
		{name: "compact full", kind: "compact:full"},
		{name: "compact optimize", kind: "compact:optimize"},
		{name: "compact level(fast)", kind: "compact:level"},
		{name: "compact planned", kind: "compact:planned"},
		{name: "delete host=a time[2,3]", kind: "delete", meas: "cpu", cond: "host = 'a' AND time >= 2 AND time <= 3", sel: hostA, min: 2, max: 3},
		{name: "delete all time>=4", kind: "delete", meas: "cpu", cond: "time >= 4", sel: all, min: 4, max: influxql.MaxTime},
		{name: "reopen", kind: "reopen"},
	}
}

var universe = []ek.Series{sA, sB}
var fieldTypes = map[string]influxql.DataType{"f": influxql.Float, "i": influxql.Integer, "s": influxql.String, "b": influxql.Boolean, "u": influxql.Unsigned}
var ranges = []ek.Range{
	{influxql.MinTime, influxql.MaxTime, true}, {influxql.MinTime, influxql.MaxTime, false},
	{2, 3, true}, {2, 3, false}, {3, 3, true}, {1, 2, false}, {4, influxql.MaxTime, true}, {influxql.MinTime, 1, false}, {3, 5, true}, {2, 4, false},
}

func run(t *testing.T, alphabet []op, seq []int, index string) explore.StepResult {
	return explore.Guard(120*time.Second, func() explore.StepResult { return runUnguarded(t, alphabet, seq, index) })
}

func runUnguarded(t *testing.T, alphabet []op, seq []int, index string) (res explore.StepResult) {
	dir := ek.NewTempDir("c02")
	defer os.RemoveAll(dir)
	synctest.Test(t, func(t *testing.T) {
		env := &ek.Env{Dir: dir, IndexType: index, BlockSize: 2, WAL: true}
		if err := env.Open(); err != nil {
			res.Violation, res.Sig = "open: "+err.Error(), "open-error"
			return
		}
		defer env.Close()
		m := ek.NewModel()
		for i, oi := range seq {
			o := alphabet[oi]
			last := i == len(seq)-1
			switch {
			case o.write != nil:
				before := m.Dump()
				rejected, ambiguous := m.WriteA(o.write)
				if ambiguous {
					// a new field written with two types in one batch: outside the property's statement
					res.Skip = true
					return
				}
				err := env.Write(o.write)
				if last {
					res.Obs = "write"
					if rejected == 0 && err != nil {
						res.Violation, res.Sig = fmt.Sprintf("write %q failed: %v", o.name, err), "write-error"
						return
					}
					if rejected > 0 {
						res.Obs = "partial-write"
						pw, ok := err.(tsdb.PartialWriteError)
						if !ok || pw.Dropped != rejected {
							res.Violation = fmt.Sprintf("a batch with %d type-conflicting point(s) returned %v instead of a partial write error dropping %d", rejected, err, rejected)
							res.Sig = "partial-write-not-reported"
							return
						}
					}
					if m.Dump() == before {
						res.Obs = "write-noop"
					}
				}
			case o.kind == "snapshot":
				if err := env.Snapshot(); err != nil && last {
					res.Violation, res.Sig = "snapshot failed: "+err.Error(), "snapshot-error"
					return
				}
			case len(o.kind) > 8 && o.kind[:8] == "compact:":
				n, ok, err := env.Engine.VCompact(o.kind[8:])
				if last {
					res.Obs = fmt.Sprintf("compact groups=%d", n)
					if err != nil || !ok {
						res.Violation, res.Sig = fmt.Sprintf("compaction %s failed (ok=%v err=%v)", o.kind, ok, err), "compaction-failed"
						return
					}
					if n == 0 {
						res.Skip = true
						return
					}
				}
			case o.kind == "delete":
				m.DeleteRange(func(s ek.Series) bool { return s.Measurement == o.meas && o.sel(s) }, o.min, o.max)
				if err := env.DeleteWhere(o.meas, o.cond); err != nil && last {
					res.Violation, res.Sig = "delete failed: "+err.Error(), "delete-error"
					return
				}
			case o.kind == "reopen":
				if err := env.Reopen(); err != nil {
					res.Violation, res.Sig = "reopen failed: "+err.Error(), "reopen-error"
					return
				}
			}
			if !last {
				continue
			}
			if v, s := env.CheckReads(m, universe, fieldTypes, ranges, true); v != "" {
				res.Violation, res.Sig = v, s
				res.Detail = "layout: " + env.Engine.VLayout()
				return
			}
			res.State = m.Dump() + "|" + env.Engine.VLayout()
		}
		if len(seq) == 0 {
			res.State = "empty"
		}
	})
	return res
}

func TestCheck(t *testing.T) {
	models.EnableUintSupport()
	c := report.Begin("C02", "model_checking")
	c.Rule = "states = (model content, physical layout: per TSM file keys/blocks/tombstones + cache size) of a real shard reached by BFS over the operation alphabet; every transition is followed by every read (5 fields x 10 ranges/directions x iterator and cursor paths) compared with the last-write-wins model; distinct = states"
	c.Assumptions = []string{
		"2 points per block stand for 1000 (block boundaries reached with a handful of points); snapshot writer keeps its fixed 1000-point chunks",
		"runs inside a synctest bubble: background compaction/snapshot loops are inert (virtual time does not advance), operations are invoked explicitly through the real strategies/planner",
		"inmem index in the quick tier, tsi1 added in the thorough tier",
	}
	alphabet := ops()
	if *replayFile != "" {
		rp, err := report.LoadReplay(*replayFile)
		if err != nil {
			t.Fatal(err)
		}
		idx := rp.Config["index"]
		if idx == "" {
			idx = "inmem"
		}
		if rp.Config["alphabet"] == "core" {
			var core []op
			for _, o := range alphabet {
				switch o.name {
				case "write A.f@1,2,3", "write A.f@2(overwrite),5", "write A.f@4,1 (out of order, overwrite)", "snapshot", "compact full", "compact optimize", "delete host=a time[2,3]", "reopen":
					core = append(core, o)
				}
			}
			alphabet = core
		}
		r := run(t, alphabet, rp.Seq, idx)
		fmt.Printf("replay %v (%s): violation=%q sig=%q\n%s\n", rp.Seq, idx, r.Violation, r.Sig, r.Detail)
		if r.Violation != "" {
			report.ExitCode = 1
		}
		return
	}
	indexes := []string{"inmem"}
	if c.Thorough() {
		indexes = append(indexes, "tsi1")
	}
	depth := c.Pick(4, 5)
	for _, idx := range indexes {
		idx := idx
		r := explore.BFS(explore.BFSConfig{Ops: len(alphabet), Depth: depth, Workers: 16, OpName: func(i int) string { return alphabet[i].name }},
			func(seq []int) explore.StepResult { return run(t, alphabet, seq, idx) })
		c.AddBFS("shard-operations index="+idx, r, map[string]any{"index": idx, "alphabet": "full"})
	}
	// deeper search over the core of the alphabet (overlapping writes, snapshot, compactions, partial delete, reopen)
	var core []op
	for _, o := range alphabet {
		switch o.name {
		case "write A.f@1,2,3", "write A.f@2(overwrite),5", "write A.f@4,1 (out of order, overwrite)", "snapshot", "compact full", "compact optimize", "delete host=a time[2,3]", "reopen":
			core = append(core, o)
		}
	}
	cdepth := c.Pick(6, 7)
	rc := explore.BFS(explore.BFSConfig{Ops: len(core), Depth: cdepth, Workers: 16, OpName: func(i int) string { return core[i].name }},
		func(seq []int) explore.StepResult { return run(t, core, seq, "inmem") })
	c.AddBFS("shard-operations core alphabet", rc, map[string]any{"index": "inmem", "alphabet": "core"})
	report.ExitCode = c.Finish()
}

func TestMain(m *testing.M) { flag.Parse(); report.Main(m.Run) }
