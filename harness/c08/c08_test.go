// C08: every point is routed to exactly one, well-defined shard.
//
// Explicit-state search over metadata histories (real meta.Data methods); in
// every reached metadata state every batch of <=2 (3 thorough) points over a
// timestamp alphabet derived from that state (group edges, truncation times,
// retention cut-off, extreme timestamps) is mapped by the real
// PointsWriter.MapShards and compared with the routing the metadata designates.
package c08

import (
	"flag"
	"fmt"
	"hash/fnv"
	"sort"
	"strings"
	"sync"
	"testing"
	"testing/synctest"
	"time"

	"github.com/influxdata/influxdb/coordinator"
	"github.com/influxdata/influxdb/models"
	"github.com/influxdata/influxdb/services/meta"

	"verif/mc/explore"
	"verif/mc/report"
)

var replayFile = flag.String("replay", "", "replay file")

type fakeMeta struct{ d *meta.Data }

func (f *fakeMeta) NodeID() uint64 { return 1 }
func (f *fakeMeta) Database(name string) *meta.DatabaseInfo { return f.d.Database(name) }
func (f *fakeMeta) RetentionPolicy(db, rp string) (*meta.RetentionPolicyInfo, error) {
	return f.d.RetentionPolicy(db, rp)
}
func (f *fakeMeta) CreateShardGroup(db, rp string, ts time.Time) (*meta.ShardGroupInfo, error) {
	// mirrors meta.Client.CreateShardGroup
	if sg, _ := f.d.ShardGroupByTimestamp(db, rp, ts); sg != nil {
		return sg, nil
	}
	f.d.Index++
	if err := f.d.CreateShardGroup(db, rp, ts); err != nil {
		return nil, err
	}
	rpi, err := f.d.RetentionPolicy(db, rp)
	if err != nil {
		return nil, err
	}
	return rpi.ShardGroupByTimestamp(ts), nil
}

var seriesLines = []string{"cpu,host=a,region=x", "cpu,region=x,host=a", "cpu,host=b,region=x", "mem,host=a"}
var seriesCanon = []string{"cpu,host=a,region=x", "cpu,host=a,region=x", "cpu,host=b,region=x", "mem,host=a"}

func canonHash(i int) uint64 {
	h := fnv.New64a()
	h.Write([]byte(seriesCanon[i]))
	return h.Sum64()
}

type rpCfg struct {
	name     string
	duration time.Duration
	sgd      time.Duration
	replicaN int
}

var opNames = []string{"precreate(T0-2h)", "precreate(T0-50m)", "precreate(T0)", "precreate(T0+1h)", "alter-sgd(30m)", "alter-sgd(2h)",
	"truncate(T0-90m)", "truncate(T0-30m)", "truncate(T0+30m)", "delete-first-live-group", "delete-last-live-group", "add-node", "remove-node"}

func build(cfg rpCfg, seq []int) (d *meta.Data, skip bool) {
	d = &meta.Data{}
	d.CreateDataNode("n1:8086", "n1:8088")
	d.CreateDataNode("n2:8086", "n2:8088")
	d.CreateDatabase("db")
	sgd := cfg.sgd
	d.CreateRetentionPolicy("db", &meta.RetentionPolicyInfo{Name: "rp", ReplicaN: cfg.replicaN, Duration: cfg.duration, ShardGroupDuration: sgd}, true)
	T0 := time.Now().UTC()
	for i, op := range seq {
		last := i == len(seq)-1
		d.Index++
		switch {
		case op <= 3:
			ts := []time.Time{T0.Add(-2 * time.Hour), T0.Add(-50 * time.Minute), T0, T0.Add(time.Hour)}[op]
			if sg, _ := d.ShardGroupByTimestamp("db", "rp", ts); sg != nil {
				return d, last
			}
			d.CreateShardGroup("db", "rp", ts)
		case op <= 5:
			nd := []time.Duration{30 * time.Minute, 2 * time.Hour}[op-4]
			rpi, _ := d.RetentionPolicy("db", "rp")
			if rpi.ShardGroupDuration == nd {
				return d, last
			}
			u := &meta.RetentionPolicyUpdate{}
			u.SetShardGroupDuration(nd)
			if err := d.UpdateRetentionPolicy("db", "rp", u, false); err != nil {
				return d, last
			}
		case op <= 8:
			ts := []time.Time{T0.Add(-90 * time.Minute), T0.Add(-30 * time.Minute), T0.Add(30 * time.Minute)}[op-6]
			d.TruncateShardGroups(ts)
		case op <= 10:
			rpi, _ := d.RetentionPolicy("db", "rp")
			var live []uint64
			for _, g := range rpi.ShardGroups {
				if !g.Deleted() {
					live = append(live, g.ID)
				}
			}
			if len(live) == 0 || (op == 10 && len(live) == 1) {
				return d, last
			}
			id := live[0]
			if op == 10 {
				id = live[len(live)-1]
			}
			d.DeleteShardGroup("db", "rp", id)
		case op == 11:
			if len(d.DataNodes) >= 3 {
				return d, last
			}
			d.CreateDataNode("n3:8086", "n3:8088")
		case op == 12:
			if len(d.DataNodes) <= 1 {
				return d, last
			}
			d.DeleteDataNode(d.DataNodes[len(d.DataNodes)-1].ID)
		}
	}
	return d, false
}

func canon(d *meta.Data) string {
	var b strings.Builder
	rpi, _ := d.RetentionPolicy("db", "rp")
	fmt.Fprintf(&b, "nodes=%d idx%%6=%d sgd=%s dur=%s|", len(d.DataNodes), d.Index%6, rpi.ShardGroupDuration, rpi.Duration)
	for _, g := range rpi.ShardGroups {
		fmt.Fprintf(&b, "g%d[%d,%d)del=%v trunc=%d shards=", g.ID, g.StartTime.UnixNano(), g.EndTime.UnixNano(), g.Deleted(), truncNano(g))
		for _, s := range g.Shards {
			fmt.Fprintf(&b, "%d:", s.ID)
			for _, o := range s.Owners {
				fmt.Fprintf(&b, "%d,", o.NodeID)
			}
		}
		b.WriteString(";")
	}
	return b.String()
}

func truncNano(g meta.ShardGroupInfo) int64 {
	if !g.Truncated() {
		return 0
	}
	return g.TruncatedAt.UnixNano()
}

// timestamp alphabet of a metadata state
func alphabet(d *meta.Data, now time.Time) []int64 {
	rpi, _ := d.RetentionPolicy("db", "rp")
	set := map[int64]bool{models.MinNanoTime: true, models.MaxNanoTime: true, now.UnixNano(): true}
	add := func(t time.Time) {
		n := t.UnixNano()
		set[n-1], set[n], set[n+1] = true, true, true
	}
	for _, g := range rpi.ShardGroups {
		add(g.StartTime)
		add(g.EndTime)
		if g.Truncated() {
			add(g.TruncatedAt)
		}
	}
	if rpi.Duration > 0 {
		add(now.Add(-rpi.Duration))
	}
	var out []int64
	for n := range set {
		if n >= models.MinNanoTime && n <= models.MaxNanoTime {
			out = append(out, n)
		}
	}
	sort.Slice(out, func(i, j int) bool { return out[i] < out[j] })
	return out
}

type pt struct {
	series int
	ts     int64
}

func mkPoint(p pt) models.Point {
	ps, err := models.ParsePointsString(fmt.Sprintf("%s v=1 %d", seriesLines[p.series], p.ts))
	if err != nil || len(ps) != 1 {
		panic(fmt.Sprint("cannot build point: ", err))
	}
	return ps[0]
}

// checkBatch maps one batch on a clone of the metadata and applies the oracle.
func checkBatch(base *meta.Data, now time.Time, batch []pt) (viol, sig string) {
	d := base.Clone()
	w := coordinator.NewPointsWriter()
	w.MetaClient = &fakeMeta{d}
	pts := make([]models.Point, len(batch))
	for i, p := range batch {
		pts[i] = mkPoint(p)
	}
	m, err := w.MapShards(&coordinator.WritePointsRequest{Database: "db", RetentionPolicy: "rp", Points: pts})
	if err != nil {
		return "MapShards failed: " + err.Error(), "error"
	}
	rpi, _ := d.RetentionPolicy("db", "rp")
	idx := map[models.Point]int{}
	for i, p := range pts {
		idx[p] = i
	}
	count := make([]int, len(pts))
	dropped := make([]bool, len(pts))
	for _, p := range m.Dropped {
		i, ok := idx[p]
		if !ok {
			return "dropped list holds a point that is not in the batch", "foreign-point"
		}
		count[i]++
		dropped[i] = true
	}
	for sid, sp := range m.Points {
		for _, p := range sp {
			i, ok := idx[p]
			if !ok {
				return "mapping holds a point that is not in the batch", "foreign-point"
			}
			count[i]++
			// group designated by the metadata for this timestamp
			g := designated(rpi, p.Time())
			if g == nil {
				return fmt.Sprintf("point %d mapped to shard %d but the metadata designates no live group for its timestamp", i, sid), "mapped-no-group"
			}
			found := -1
			for k, s := range g.Shards {
				if s.ID == sid {
					found = k
				}
			}
			if found < 0 {
				og := "none"
				for _, og2 := range rpi.ShardGroups {
					for _, s := range og2.Shards {
						if s.ID == sid {
							og = fmt.Sprintf("group %d [del=%v trunc=%v]", og2.ID, og2.Deleted(), og2.Truncated())
						}
					}
				}
				kind := "other-group"
				if strings.Contains(og, "trunc=true") {
					kind = "truncated-group"
				} else if strings.Contains(og, "del=true") {
					kind = "deleted-group"
				}
				return fmt.Sprintf("point %d (t=%d) mapped to shard %d of %s, the metadata designates group %d", i, batch[i].ts, sid, og, g.ID), "wrong-group:" + kind
			}
			want := int(canonHash(batch[i].series) % uint64(len(g.Shards)))
			if found != want {
				return fmt.Sprintf("point %d of series %q mapped to shard index %d of %d, hash of the canonical series key designates %d", i, seriesLines[batch[i].series], found, len(g.Shards), want), "wrong-shard"
			}
			if m.Shards[sid] == nil || m.Shards[sid].ID != sid {
				return "mapping lacks the shard info of a mapped shard", "shard-info"
			}
		}
	}
	for i := range pts {
		if count[i] != 1 {
			return fmt.Sprintf("point %d appears %d times in mapped+dropped", i, count[i]), fmt.Sprintf("count=%d", count[i])
		}
		tooOld := rpi.Duration > 0 && batch[i].ts < now.Add(-rpi.Duration).UnixNano()
		if dropped[i] != tooOld {
			return fmt.Sprintf("point %d (t=%d) dropped=%v but older-than-retention=%v", i, batch[i].ts, dropped[i], tooOld), fmt.Sprintf("dropped=%v", dropped[i])
		}
	}
	return "", ""
}

// designated is the reference reading of "the shard group the metadata
// designates for a timestamp": live, containing t, and not truncated at/after t.
func designated(rpi *meta.RetentionPolicyInfo, t time.Time) *meta.ShardGroupInfo {
	for i := range rpi.ShardGroups {
		g := &rpi.ShardGroups[i]
		if g.DeletedAt.IsZero() && !t.Before(g.StartTime) && t.Before(g.EndTime) && (g.TruncatedAt.IsZero() || t.Before(g.TruncatedAt)) {
			return g
		}
	}
	return nil
}

type stateEval struct {
	batches int64
	viol    string
	sig     string
	detail  string
}

func evalState(d *meta.Data, now time.Time, maxBatch int) stateEval {
	var ev stateEval
	ts := alphabet(d, now)
	var all []pt
	for s := range seriesLines {
		for _, t := range ts {
			all = append(all, pt{s, t})
		}
	}
	try := func(b []pt) bool {
		ev.batches++
		if v, s := checkBatch(d, now, b); v != "" {
			ev.viol, ev.sig, ev.detail = v, s, fmt.Sprintf("batch=%v", describe(b))
			return true
		}
		return false
	}
	for _, a := range all {
		if try([]pt{a}) {
			return ev
		}
	}
	for _, a := range all {
		for _, b := range all {
			if try([]pt{a, b}) {
				return ev
			}
		}
	}
	if maxBatch >= 3 {
		// triples over series 0 (and its permuted spelling) only: the third point adds group interplay, not series interplay
		var one []pt
		for _, t := range ts {
			one = append(one, pt{0, t})
		}
		for _, a := range one {
			for _, b := range one {
				for _, c := range one {
					if try([]pt{a, b, {1, c.ts}}) {
						return ev
					}
				}
			}
		}
	}
	return ev
}

func describe(b []pt) string {
	var s []string
	for _, p := range b {
		s = append(s, fmt.Sprintf("%s@%d", seriesLines[p.series], p.ts))
	}
	return strings.Join(s, " ; ")
}

func TestCheck(t *testing.T) {
	c := report.Begin("C08", "model_checking")
	c.Rule = "states = canonical dumps of real meta.Data reached by metadata histories (BFS); in every new state every batch over the state's timestamp alphabet is mapped by the real MapShards; distinct = metadata states x oracle outcome classes"
	c.Assumptions = []string{
		"fake meta client mirrors meta.Client.CreateShardGroup over a real meta.Data (lookup, else create, then lookup)",
		"time.Now() is the synctest bubble clock (2000-01-01)",
		"series alphabet of 4 lines (one a tag permutation of another); shard choice compared with stdlib FNV-1a of the canonical key",
	}
	if canonHash(0)%2 == canonHash(2)%2 && canonHash(0)%2 == canonHash(3)%2 {
		c.InternalError("series alphabet does not spread over 2 shards")
	}
	depth := c.Pick(3, 4)
	maxBatch := c.Pick(2, 3)
	cfgs := []rpCfg{{"infinite/1h", 0, time.Hour, 1}, {"3h/1h rf2", 3 * time.Hour, time.Hour, 2}}
	for _, cfg := range cfgs {
		cfg := cfg
		var evaluated sync.Map
		var mu sync.Mutex
		var batches int64
		distinct := map[string]bool{}
		run := func(seq []int) (res explore.StepResult) {
			synctest.Test(t, func(t *testing.T) {
				now := time.Now()
				d, skip := build(cfg, seq)
				if skip {
					res.Skip = true
					return
				}
				res.State = canon(d)
				if _, dup := evaluated.LoadOrStore(res.State, true); dup && *replayFile == "" {
					return
				}
				ev := evalState(d, now, maxBatch)
				mu.Lock()
				batches += ev.batches
				distinct[fmt.Sprintf("alphabet=%d", len(alphabet(d, now)))] = true
				mu.Unlock()
				if ev.viol != "" {
					res.Violation, res.Sig, res.Detail = ev.viol, "route:"+ev.sig, ev.detail
				}
			})
			return res
		}
		if *replayFile != "" {
			seq, err := report.LoadTape(*replayFile)
			if err != nil {
				t.Fatal(err)
			}
			r := run(seq)
			fmt.Printf("replay %v on rp %s: %+v\n", seq, cfg.name, r)
			if r.Violation != "" {
				report.ExitCode = 1
			}
			continue
		}
		r := explore.BFS(explore.BFSConfig{Ops: len(opNames), Depth: depth, Workers: 16, OpName: func(i int) string { return opNames[i] }}, run)
		c.AddBFS("metadata-histories rp="+cfg.name, r, map[string]any{"rp": cfg.name})
		c.AddCount("batches rp="+cfg.name, batches, distinct, true, map[string]any{"max_batch": maxBatch})
	}
	if *replayFile == "" {
		report.ExitCode = c.Finish()
	}
}

func TestMain(m *testing.M) { flag.Parse(); report.Main(m.Run) }
