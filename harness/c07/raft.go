package c07

// Parts (c),(d) of C07: the real meta service - hashicorp/raft, raft-boltdb, the
// HTTP handler, the real meta.Client - as a three-node cluster inside one
// synctest bubble (in-memory transport for raft and HTTP, virtual clock).
// Enumerated: where in a script of client commands meta nodes are stopped and
// started again (leader or follower, up to two fault events per execution).
// Oracle: a command the client acknowledged is never lost - after every node is
// up again all three stores hold every acknowledged change, and they hold the
// same metadata.

import (
	"context"
	"fmt"
	"net"
	"net/http"
	"net/url"
	"os"
	"path/filepath"
	"runtime"
	"strings"
	"testing"
	"testing/synctest"
	"time"

	"github.com/influxdata/influxdb/pkg/vtcp"
	"github.com/influxdata/influxdb/services/meta"
	"github.com/influxdata/influxdb/toml"

	"verif/harness/metakit"
	"verif/mc/explore"
)

type metaNode struct {
	id      int
	dir     string
	svc     *meta.Service
	up      bool
	openErr chan error
}

type metaCluster struct {
	dir   string
	nodes []*metaNode
}

func (n *metaNode) httpAddr() string { return fmt.Sprintf("meta%d:8091", n.id) }
func (n *metaNode) raftAddr() string { return fmt.Sprintf("meta%d:8089", n.id) }

func (n *metaNode) config() *meta.Config {
	cfg := meta.NewConfig()
	cfg.Dir = n.dir
	cfg.BindAddress = n.raftAddr()
	cfg.HTTPBindAddress = n.httpAddr()
	cfg.LeaseDuration = toml.Duration(time.Second)
	return cfg
}

// start opens the node's service in its own goroutine (Open of a node that has no
// raft state yet returns only once a leader exists, i.e. after a join).
func (n *metaNode) start() {
	s := meta.NewService(n.config())
	s.RaftListener = vtcp.Listen(n.raftAddr(), true)
	n.svc = s
	n.up = true
	n.openErr = make(chan error, 1)
	go func() { n.openErr <- s.Open() }()
}

func (n *metaNode) stop() error {
	n.up = false
	return n.svc.Close()
}

func httpTransportInMemory() func() {
	tr := http.DefaultTransport.(*http.Transport)
	oldDial, oldKA := tr.DialContext, tr.DisableKeepAlives
	tr.DialContext = func(ctx context.Context, network, addr string) (net.Conn, error) { return vtcp.Dial(addr) }
	tr.DisableKeepAlives = true
	return func() { tr.DialContext, tr.DisableKeepAlives = oldDial, oldKA }
}

func postJoin(to, addr string) error {
	c := &http.Client{Transport: http.DefaultTransport.(*http.Transport).Clone(), Timeout: 30 * time.Second}
	resp, err := c.PostForm("http://"+to+"/join", url.Values{"addr": {addr}})
	if err != nil {
		return err
	}
	defer resp.Body.Close()
	if resp.StatusCode != http.StatusOK {
		return fmt.Errorf("join %s via %s: status %d", addr, to, resp.StatusCode)
	}
	return nil
}

func newMetaCluster(dir string, n int) (*metaCluster, error) {
	c := &metaCluster{dir: dir}
	for i := 1; i <= n; i++ {
		nd := &metaNode{id: i, dir: filepath.Join(dir, fmt.Sprintf("meta%d", i))}
		os.MkdirAll(nd.dir, 0o755)
		c.nodes = append(c.nodes, nd)
		nd.start()
	}
	time.Sleep(500 * time.Millisecond) // listeners up
	for _, nd := range c.nodes {
		var err error
		for try := 0; try < 20; try++ {
			if err = postJoin(c.nodes[0].httpAddr(), nd.httpAddr()); err == nil {
				break
			}
			time.Sleep(500 * time.Millisecond)
		}
		if err != nil {
			return c, err
		}
	}
	for _, nd := range c.nodes {
		select {
		case err := <-nd.openErr:
			if err != nil {
				return c, fmt.Errorf("open meta%d: %v", nd.id, err)
			}
		case <-time.After(60 * time.Second):
			return c, fmt.Errorf("meta%d did not finish opening", nd.id)
		}
	}
	return c, nil
}

func (c *metaCluster) servers() []string {
	var s []string
	for _, n := range c.nodes {
		s = append(s, n.httpAddr())
	}
	return s
}

func (c *metaCluster) leader() *metaNode {
	for _, n := range c.nodes {
		if n.up && n.svc.VIsLeader() {
			return n
		}
	}
	return nil
}

func (c *metaCluster) close() {
	for _, n := range c.nodes {
		if n.up {
			n.stop()
		}
	}
	vtcp.Reset()
}

// fault events between two client commands
var raftEvents = []string{"none", "stop-leader", "stop-follower", "start-stopped", "restart-leader", "restart-all", "stop-both-followers", "swap-running-and-stopped"}

func raftBody(t *testing.T, ncmd, maxFaults int) func(tp *explore.Tape) explore.Outcome {
	return func(tp *explore.Tape) (out explore.Outcome) {
		// the fault schedule: an event before each command and one after the last
		events := make([]int, ncmd+1)
		faults := 0
		for i := range events {
			if faults >= maxFaults {
				break
			}
			events[i] = tp.ChooseFree(len(raftEvents), fmt.Sprintf("event-before-cmd%d", i))
			if events[i] != 0 {
				faults++
			}
		}
		var desc []string
		var viol, sig string
		acked := map[string]bool{}
		attempted := map[string]bool{}
		pending := map[string]chan error{}
		dir, _ := os.MkdirTemp("/dev/shm", "verif-c07r-")
		defer os.RemoveAll(dir)
		// hang watchdog on real time (an execution normally takes under a second): a bubble that spins or
		// waits on something outside cannot be unwound, so the worker reports the tape and exits
		finished := make(chan struct{})
		defer close(finished)
		go func() {
			select {
			case <-finished:
			case <-time.After(180 * time.Second):
				if f := os.Getenv("VERIF_C07_HANGLOG"); f != "" {
					buf := make([]byte, 1<<20)
					buf = buf[:runtime.Stack(buf, true)]
					os.WriteFile(fmt.Sprintf("%s.%d", f, os.Getpid()), []byte(fmt.Sprintf("%v\n%s\n%s", tp.Picks(), strings.Join(desc, "; "), buf)), 0o644)
				}
				os.RemoveAll(dir)
				explore.Abort(tp, explore.Outcome{Violation: "the execution did not finish within 180 s of real time (normal: under a second): the cluster hangs; steps so far: " + strings.Join(desc, "; "), Sig: "raft:hang"})
			}
		}()
		synctest.Test(t, func(t *testing.T) {
			// a bubble cannot end with blocked goroutines: after everything is closed, let virtual time pass
			// so that pollers, retry loops and raft timers notice and exit
			defer time.Sleep(30 * time.Minute)
			restore := httpTransportInMemory()
			defer restore()
			c, err := newMetaCluster(dir, 3)
			defer c.close()
			if err != nil {
				viol, sig = "the three-node cluster did not form: "+err.Error(), "raft:cluster-formation"
				return
			}
			ccfg := meta.NewConfig()
			ccfg.Dir = filepath.Join(dir, "client")
			os.MkdirAll(ccfg.Dir, 0o755)
			cl := meta.NewClient(ccfg)
			cl.SetMetaServers(c.servers())
			if err := cl.Open(); err != nil {
				viol, sig = "client open: "+err.Error(), "raft:client-open"
				return
			}
			defer cl.Close()
			apply := func(ev int) {
				switch raftEvents[ev] {
				case "stop-leader":
					if l := c.leader(); l != nil {
						desc = append(desc, fmt.Sprintf("stop leader meta%d", l.id))
						l.stop()
					}
				case "stop-follower":
					for _, n := range c.nodes {
						if n.up && !n.svc.VIsLeader() {
							desc = append(desc, fmt.Sprintf("stop follower meta%d", n.id))
							n.stop()
							break
						}
					}
				case "start-stopped":
					for _, n := range c.nodes {
						if !n.up {
							desc = append(desc, fmt.Sprintf("start meta%d", n.id))
							n.start()
							break
						}
					}
				case "restart-leader":
					if l := c.leader(); l != nil {
						desc = append(desc, fmt.Sprintf("restart leader meta%d", l.id))
						l.stop()
						l.start()
					}
				case "stop-both-followers":
					// the leader is cut off from its quorum (it still believes in its lease for a moment)
					for _, n := range c.nodes {
						if n.up && !n.svc.VIsLeader() {
							desc = append(desc, fmt.Sprintf("stop follower meta%d", n.id))
							n.stop()
						}
					}
				case "swap-running-and-stopped":
					// every running node stops, every stopped node starts: the new majority has not seen
					// what the old one may still have had in flight
					var toStart []*metaNode
					for _, n := range c.nodes {
						if n.up {
							desc = append(desc, fmt.Sprintf("stop meta%d", n.id))
							n.stop()
						} else {
							toStart = append(toStart, n)
						}
					}
					for _, n := range toStart {
						desc = append(desc, fmt.Sprintf("start meta%d", n.id))
						n.start()
					}
				case "restart-all":
					desc = append(desc, "stop every running meta node, then start all three")
					for _, n := range c.nodes {
						if n.up {
							n.stop()
						}
					}
					for _, n := range c.nodes {
						n.start()
					}
				}
			}
			for i := 0; i <= ncmd; i++ {
				apply(events[i])
				if i == ncmd {
					break
				}
				name := fmt.Sprintf("db%d", i)
				attempted[name] = true
				done := make(chan error, 1)
				go func() { _, err := cl.CreateDatabase(name); done <- err }()
				select {
				case err := <-done:
					if err == nil {
						acked[name] = true
						desc = append(desc, "create "+name+": acknowledged")
					} else {
						desc = append(desc, "create "+name+": "+err.Error())
					}
				case <-time.After(5 * time.Minute):
					desc = append(desc, "create "+name+": no answer within 5 virtual minutes (no quorum), still retrying")
					pending[name] = done
				}
			}
			// heal: every node up again, then wait for convergence
			for _, n := range c.nodes {
				if !n.up {
					desc = append(desc, fmt.Sprintf("start meta%d", n.id))
					n.start()
				}
			}
			// calls that were still retrying are answered once there is a quorum again
			for name, done := range pending {
				select {
				case err := <-done:
					if err == nil {
						acked[name] = true
						desc = append(desc, "create "+name+": acknowledged after the nodes came back")
					}
				case <-time.After(10 * time.Minute):
					viol, sig = "CREATE DATABASE "+name+" is still unanswered ten virtual minutes after every meta node is up again", "raft:no-progress-after-heal"
					return
				}
			}
			deadline := time.Now().Add(10 * time.Minute)
			var dumps []string
			for {
				dumps = dumps[:0]
				ok := true
				for _, n := range c.nodes {
					d := n.svc.VStoreData()
					if d == nil {
						ok = false
						dumps = append(dumps, "(not open)")
						continue
					}
					dumps = append(dumps, metakit.Dump(d, 0))
					for name := range acked {
						if d.Database(name) == nil {
							ok = false
						}
					}
				}
				if ok && dumps[0] == dumps[1] && dumps[1] == dumps[2] {
					break
				}
				if time.Now().After(deadline) {
					for i, n := range c.nodes {
						d := n.svc.VStoreData()
						for name := range acked {
							if d == nil || d.Database(name) == nil {
								viol = fmt.Sprintf("the acknowledged change CREATE DATABASE %s is missing on meta%d ten virtual minutes after every node is up again", name, i+1)
								sig = "raft:acknowledged-change-lost"
								return
							}
						}
					}
					viol = "the meta nodes do not converge to the same metadata within ten virtual minutes after every node is up again"
					sig = "raft:replicas-diverge"
					return
				}
				time.Sleep(time.Second)
			}
			// the client's cache follows
			cdeadline := time.Now().Add(2 * time.Minute)
			for {
				missing := ""
				for name := range acked {
					if cl.Database(name) == nil {
						missing = name
					}
				}
				if missing == "" {
					break
				}
				if time.Now().After(cdeadline) {
					viol, sig = "the metadata cache of the client lacks the acknowledged database "+missing+" two virtual minutes after the meta nodes converged", "raft:client-cache-stale"
					return
				}
				time.Sleep(time.Second)
			}
		})
		out.Violation, out.Sig = viol, sig
		out.Detail = strings.Join(desc, "; ")
		out.Obs = fmt.Sprintf("acked=%d/%d", len(acked), len(attempted))
		return out
	}
}

func raftParams(thorough bool) (ncmd, maxFaults int) {
	if thorough {
		return 5, 3
	}
	return 3, 2
}
