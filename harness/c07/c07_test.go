// C07 (parts a, b): acknowledged metadata changes are never lost; a snapshot is
// a point-in-time image; no accepted request can leave replicas unable to
// apply their log.
//
// (a) explicit-state BFS over {commands, Snapshot(), Persist(oldest held)} on
// the real storeFSM: Persist may happen after any number of later Applies (the
// raft runSnapshots/runFSM concurrency at the granularity at which it is
// observable). Restore(Persist(Snapshot@i)) must equal the state at i and,
// after replaying the suffix of the log, the primary's state.
// (b) every (type value, extension) body against the real validateCommand; a
// body that is accepted must apply without panic on two replicas.
package c07

import (
	"bytes"
	"flag"
	"fmt"
	"os"
	"testing"
	"testing/synctest"
	"time"

	"github.com/hashicorp/raft"
	"github.com/influxdata/influxdb/services/meta"

	"verif/harness/metakit"
	"verif/mc/explore"
	"verif/mc/report"
)

var replayFile = flag.String("replay", "", "replay file")

type sink struct {
	bytes.Buffer
	closed, cancelled bool
}

func (s *sink) ID() string    { return "verif" }
func (s *sink) Cancel() error { s.cancelled = true; return nil }
func (s *sink) Close() error  { s.closed = true; return nil }

type held struct {
	at       int    // number of log entries applied when the snapshot was taken
	index    uint64 // Data.Index at that time
	expected string // dump at that time
}

type logEntry struct {
	index uint64
	data  []byte
	adv   time.Duration
}

func safeApply(f *meta.VerifFSM, idx uint64, data []byte) (res interface{}, panicked interface{}) {
	defer func() {
		if r := recover(); r != nil {
			panicked = r
		}
	}()
	return f.Apply(idx, 1, data), nil
}

func partA(t *testing.T, c *report.Check) {
	alpha := metakit.Alphabet(1)
	nOps := len(alpha) + 2
	opSnap, opPersist := len(alpha), len(alpha)+1
	name := func(i int) string {
		switch i {
		case opSnap:
			return "Snapshot()"
		case opPersist:
			return "Persist(oldest held)"
		}
		return alpha[i].Name
	}
	pre := []metakit.Cmd{
		{Data: meta.VCreateMetaNode("m1:8091", "m1:8089", 42)},
		{Data: meta.VCreateDataNode("n1:8086", "n1:8088")}, {Data: meta.VCreateDataNode("n2:8086", "n2:8088")},
		{Data: meta.VCreateDatabaseWithRP("a", "x", 2, 0, time.Hour)}, {Data: meta.VCreateShardGroup("a", "x", metakit.T0.UnixNano())},
		{Data: meta.VCreateSubscription("a", "x", "s0", "ALL", []string{"udp://h:9"})},
		{Data: meta.VCreateUser("v", "hash3", false)},
	}
	run := func(seq []int) (res explore.StepResult) {
		synctest.Test(t, func(t *testing.T) {
			p := meta.NewVerifFSM(true)
			var log []logEntry
			idx := uint64(1)
			apply := func(cm metakit.Cmd) {
				if cm.Advance > 0 {
					time.Sleep(cm.Advance)
					log = append(log, logEntry{adv: cm.Advance})
					return
				}
				idx++
				p.Apply(idx, 1, cm.Data)
				log = append(log, logEntry{index: idx, data: cm.Data})
			}
			for _, cm := range pre {
				apply(cm)
			}
			var snaps []*held
			var handles []raft.FSMSnapshot
			for i, op := range seq {
				last := i == len(seq)-1
				switch op {
				case opSnap:
					if len(snaps) >= 2 {
						res.Skip = last
						if last {
							return
						}
						continue
					}
					s, err := p.Snapshot()
					if err != nil {
						res.Violation, res.Sig = "Snapshot failed: "+err.Error(), "snapshot-error"
						return
					}
					snaps = append(snaps, &held{at: len(log), index: p.Data().Index, expected: metakit.Dump(p.Data(), 0)})
					handles = append(handles, s)
				case opPersist:
					if len(snaps) == 0 {
						res.Skip = last
						if last {
							return
						}
						continue
					}
					h := snaps[0]
					hs := handles[0]
					snaps, handles = snaps[1:], handles[1:]
					if !last {
						continue // checked when this prefix was the whole sequence
					}
					sk := &sink{}
					if err := hs.Persist(sk); err != nil {
						res.Violation, res.Sig = "Persist failed: "+err.Error(), "persist-error"
						return
					}
					r := meta.NewVerifFSM(true)
					if err := r.Restore(sk.Bytes()); err != nil {
						res.Violation, res.Sig = "Restore failed: "+err.Error(), "restore-error"
						return
					}
					got := metakit.Dump(r.Data(), 0)
					if got != h.expected || r.Data().Index != h.index {
						res.Violation = fmt.Sprintf("snapshot taken at index %d restores to a different state (restored index %d) after %d later log entries were applied before Persist", h.index, r.Data().Index, len(log)-h.at)
						res.Sig = "snapshot-not-point-in-time"
						res.Detail = "state when Snapshot() was called:\n" + h.expected + "\nrestored:\n" + got
						return
					}
					// replay the suffix on the restored replica
					for _, e := range log[h.at:] {
						if e.adv > 0 {
							continue
						}
						r.Apply(e.index, 1, e.data)
					}
					if d, pd := metakit.Dump(r.Data(), 0), metakit.Dump(p.Data(), 0); d != pd {
						res.Violation = "replica restored from the snapshot and replaying the rest of the log differs from the primary"
						res.Sig = "restore-replay-diverges"
						res.Detail = "primary:\n" + pd + "\nrestored+replayed:\n" + d
						return
					}
					res.Obs = "persist-checked"
				default:
					apply(alpha[op])
				}
			}
			st := metakit.Dump(p.Data(), 6)
			for _, h := range snaps {
				st += fmt.Sprintf("\nHELD@-%d:%s", len(log)-h.at, h.expected)
			}
			res.State = st
			if res.Obs == "" {
				res.Obs = "step"
			}
		})
		return res
	}
	if *replayFile != "" {
		seq, err := report.LoadTape(*replayFile)
		if err != nil {
			t.Fatal(err)
		}
		r := run(seq)
		fmt.Printf("replay (a): %v\n violation=%q sig=%q\n%s\n", seq, r.Violation, r.Sig, r.Detail)
		if r.Violation != "" {
			report.ExitCode = 1
		}
		return
	}
	depth := c.Pick(3, 4)
	r := explore.BFS(explore.BFSConfig{Ops: nOps, Depth: depth, Workers: 16, OpName: name}, run)
	c.AddBFS("fsm-snapshot-contract", r, map[string]any{"part": "a"})
}

func TestCheck(t *testing.T) {
	if explore.WorkerScenario() == "raft" {
		n, f := raftParams(report.Tier() == "thorough")
		explore.WorkerLoop(raftBody(t, n, f))
		return
	}
	c := report.Begin("C07", "model_checking")
	c.Rule = "(a) states = (canonical dump of the primary's real meta.Data, held snapshot images) reached by BFS over commands/Snapshot/Persist on the real storeFSM; (b) every (type value 0..40, extension kind) request body through the real validateCommand and Apply; distinct = states + outcome classes"
	c.Assumptions = []string{
		"consensus safety of hashicorp/raft (log agreement, snapshot/install protocol) is trusted: the FSM, snapshot, validation and apply code of this repository is what is explored",
		"storeFSM runs on a store built without raft; Persist is run at every later point of the log (this is the only granularity at which raft's concurrent snapshot persistence is observable by the FSM)",
		"legacy commands CreateNode/RemovePeer need a raft instance to apply: for them acceptance is compared with payload validity instead of being applied",
		"(d) real meta.Service x3 (hashicorp/raft, raft-boltdb, HTTP handler) and a real meta.Client in one synctest bubble over in-memory connections: the placement of node stops/starts in a script of client commands is enumerated; raft's own randomised timeouts and goroutine schedules are not owned (one run per placement), waits are virtual minutes",
	}
	if os.Getenv("VERIF_C07_ONLY") == "raft-smoke" { // development aid
		out := raftBody(t, 3, 2)(explore.NewTape([]int{0, 1, 0, 3}))
		fmt.Printf("smoke: %+v\n", out)
		return
	}
	if rp := replayOf(); rp != nil && rp.Scenario == "raft service: client commands x node stops and restarts" {
		n, f := raftParams(c.Thorough())
		out, tp := explore.Replay(rp.Tape, raftBody(t, n, f))
		fmt.Printf("replay %v\noutcome: %+v\n", tp.Labels(), out)
		if out.Violation != "" {
			report.ExitCode = 1
		}
		return
	}
	partA(t, c)
	partB(t, c)
	if *replayFile == "" {
		r := explore.ExploreProcs(explore.ProcConfig{Scenario: "raft", Bound: -1, Procs: 16, Budget: 8, Deadline: 30 * time.Minute})
		c.AddExplore("raft service: client commands x node stops and restarts", r, map[string]any{"scenario": "raft"})
	}
	if *replayFile == "" {
		report.ExitCode = c.Finish()
	}
}

func replayOf() *report.Replay {
	if *replayFile == "" {
		return nil
	}
	rp, err := report.LoadReplay(*replayFile)
	if err != nil {
		return nil
	}
	return rp
}

func TestMain(m *testing.M) { flag.Parse(); report.Main(m.Run) }

// samples returns one well-formed command per command type value.
func samples() map[int32][]byte {
	d := &meta.Data{Index: 5}
	d.CreateDataNode("n1:8086", "n1:8088")
	list := [][]byte{
		meta.VCreateNode("n9:8088", 7), meta.VDeleteNode(1, true), meta.VCreateDatabase("a"), meta.VDropDatabase("a"),
		meta.VCreateRetentionPolicy("a", "x", 1, 0, time.Hour, false), meta.VDropRetentionPolicy("a", "x"), meta.VSetDefaultRetentionPolicy("a", "x"),
		meta.VUpdateRetentionPolicy("a", "x", "", -1, 2, -1, false), meta.VCreateShardGroup("a", "x", 0), meta.VDeleteShardGroup("a", "x", 1),
		meta.VCreateContinuousQuery("a", "q", "CREATE CONTINUOUS QUERY q ON a BEGIN SELECT count(v) INTO m2 FROM m GROUP BY time(1h) END"), meta.VDropContinuousQuery("a", "q"),
		meta.VCreateUser("u", "h", true), meta.VDropUser("u"), meta.VUpdateUser("u", "h2"), meta.VSetPrivilege("u", "a", 1), meta.VSetData(d),
		meta.VSetAdminPrivilege("u", true), meta.VUpdateNode(1, "h"), meta.VCreateSubscription("a", "x", "s", "ALL", []string{"udp://h:1"}), meta.VDropSubscription("a", "x", "s"),
		meta.VRemovePeer(1, "m1:8089"), meta.VCreateMetaNode("m1:8091", "m1:8089", 1), meta.VCreateDataNode("n2:8086", "n2:8088"), meta.VUpdateDataNode(1, "n1b:8086", "n1b:8088"),
		meta.VDeleteMetaNode(1), meta.VDeleteDataNode(1), meta.VSetMetaNode("m1:8091", "m1:8089", 1), meta.VDropShard(1), meta.VTruncateShardGroups(0), meta.VPruneShardGroups(),
		meta.VCopyShardOwner(1, 1), meta.VRemoveShardOwner(1, 1),
	}
	out := map[int32][]byte{}
	for _, b := range list {
		out[meta.VCommandType(b)] = b
	}
	return out
}

func partB(t *testing.T, c *report.Check) {
	smp := samples()
	type body struct {
		desc     string
		data     []byte
		typ      int32
		matching bool
	}
	var bodies []body
	for typ := int32(0); typ <= 40; typ++ {
		bodies = append(bodies, body{fmt.Sprintf("type=%d no extension", typ), meta.VBare(typ), typ, false})
		bodies = append(bodies, body{fmt.Sprintf("type=%d own extension with empty payload", typ), meta.VRaw(typ, 100+typ, nil), typ, false})
		bodies = append(bodies, body{fmt.Sprintf("type=%d own extension with garbage payload", typ), meta.VRaw(typ, 100+typ, []byte{0xff, 0xff, 0x01}), typ, false})
		for other := int32(1); other <= 34; other++ {
			s, ok := smp[other]
			if !ok {
				continue
			}
			bodies = append(bodies, body{fmt.Sprintf("type=%d with the extension of type %d", typ, other), meta.VRetype(s, typ), typ, other == typ})
		}
	}
	bodies = append(bodies, body{"empty body", nil, -1, false}, body{"garbage body", []byte{0xff, 0xfe, 0xfd}, -1, false})
	distinct := map[string]bool{}
	var evals int64
	var sample []any
	for _, b := range bodies {
		evals++
		status := meta.VerifExecStatus(b.data)
		if status != 0 {
			distinct["rejected"] = true
			continue
		}
		if b.typ == 1 || b.typ == 23 {
			// needs raft to apply; acceptance must imply a well-formed payload
			if !b.matching {
				c.Violation("exec-accepts-poison-command", "the execute endpoint accepts a legacy command without a valid payload; applying it panics on every replica: "+b.desc, map[string]any{"part": "b", "body": b.desc, "bytes": fmt.Sprintf("%x", b.data)})
			}
			distinct["accepted-needs-raft"] = true
			continue
		}
		panics := 0
		var first interface{}
		synctest.Test(t, func(t *testing.T) {
			for rep := 0; rep < 2; rep++ {
				f := meta.NewVerifFSM(true)
				f.Apply(2, 1, meta.VCreateDataNode("n1:8086", "n1:8088"))
				f.Apply(3, 1, meta.VCreateDatabaseWithRP("a", "x", 1, 0, time.Hour))
				if _, p := safeApply(f, 4, b.data); p != nil {
					panics++
					if first == nil {
						first = p
					}
				}
			}
		})
		if panics > 0 {
			distinct["accepted-panics"] = true
			kind := "without a decodable payload of its own type"
			if b.matching {
				kind = "that the state machine does not handle"
			}
			c.Violation("exec-accepts-poison-command:"+map[bool]string{true: "unhandled-type", false: "bad-payload"}[b.matching],
				fmt.Sprintf("the execute endpoint accepts a command %s; Apply panics on every replica and on every replay (%v): %s", kind, first, b.desc),
				map[string]any{"part": "b", "body": b.desc, "bytes": fmt.Sprintf("%x", b.data)})
		} else {
			distinct["accepted-applied"] = true
			if len(sample) < 3 {
				sample = append(sample, b.desc)
			}
		}
	}
	c.AddCount("execute-endpoint-bodies", evals, distinct, true, map[string]any{"types": "0..40", "extension_kinds": "none, own empty, own garbage, every type's well-formed extension"}, sample...)
}
