// C19: concurrent operation never corrupts state or loses writes.
//
// Schedule exploration on the real code: every sync operation of the focus
// packages is a scheduling point of the controlled scheduler (synctest bubble
// + sync shim); schedules are enumerated depth-first with a delay/preemption
// bound. Scenarios: (1) shard: two writers creating the same new field with
// different types, a reader, and a snapshot / delete of another series;
// (2) metadata FSM: Apply racing snapshot persistence and readers;
// (3) hinted-handoff service: WriteShard x SendWrite x Close.
package c19

import (
	"flag"
	"fmt"
	"os"
	"strings"
	"testing"
	"testing/synctest"
	"time"

	"github.com/influxdata/influxdb/pkg/vsync"
	"github.com/influxdata/influxdb/tsdb"
	"github.com/influxdata/influxdb/tsdb/index/tsi1"
	"github.com/influxdata/influxql"

	ek "verif/harness/enginekit"
	"verif/mc/explore"
	"verif/mc/report"
)

var replayFile = flag.String("replay", "", "replay file")

type scenario struct {
	focus []string
	name  string
	bound [2]int
	delay bool
	body  func(t *testing.T, sc scenario) func(tp *explore.Tape) explore.Outcome
	extra string
}

var scenarios []scenario

func init() {
	scenarios = append(scenarios, scenario{name: "tsi1: DROP SERIES over two measurements x index log compaction", bound: [2]int{1, 2}, delay: true, body: tsiDeleteBody})
	// two writers only, scheduling points narrowed to the shard's field bookkeeping: deeper bound affordable
	scenarios = append(scenarios, scenario{name: "shard: writerA(float) x writerB(integer, same new field), field-creation focus", bound: [2]int{3, 4}, delay: true, body: shardBody, extra: "none",
		focus: []string{"github.com/influxdata/influxdb/tsdb.(*MeasurementFields)", "github.com/influxdata/influxdb/tsdb.(*MeasurementFieldSet)", "github.com/influxdata/influxdb/tsdb.(*Shard)"}})
	for _, third := range []string{"snapshot", "delete-other-series", "compact"} {
		scenarios = append(scenarios, scenario{name: "shard: writerA(float) x writerB(integer, same new field) x reader x " + third, bound: [2]int{1, 2}, delay: true, body: shardBody, extra: third})
	}
}

var (
	sA = ek.Series{Measurement: "cpu", Tags: map[string]string{"host": "a"}}
	sO = ek.Series{Measurement: "cpu", Tags: map[string]string{"host": "other"}}
)

func fv(x float64) ek.Val { return ek.Val{Typ: influxql.Float, F: x} }
func iv(x int64) ek.Val   { return ek.Val{Typ: influxql.Integer, I: x} }

func chooser(tp *explore.Tape, delay bool) vsync.Chooser {
	return func(n int, label string, preempt bool) int {
		if preempt || delay {
			return tp.Choose(n, label)
		}
		return tp.ChooseFree(n, label)
	}
}

func shardBody(t *testing.T, sc scenario) func(tp *explore.Tape) explore.Outcome {
	return func(tp *explore.Tape) (out explore.Outcome) {
		dir := ek.NewTempDir("c19")
		defer os.RemoveAll(dir)
		var errA, errB, errR, errT error
		var readV map[string][]ek.TV
		var res vsync.Result
		var final map[string]map[string][]ek.TV
		var finalErr string
		synctest.Test(t, func(t *testing.T) {
			env := &ek.Env{Dir: dir, IndexType: "inmem", BlockSize: 2, WAL: true}
			if err := env.Open(); err != nil {
				panic(err)
			}
			// acknowledged before the race: v@1,2 of series a and one point of the other series
			if err := env.Write([]ek.Point{{sA, "v", 1, fv(1)}, {sA, "v", 2, fv(2)}, {sO, "v", 1, fv(9)}}); err != nil {
				panic(err)
			}
			if sc.extra == "compact" {
				env.Snapshot()
				env.Write([]ek.Point{{sA, "v", 3, fv(3)}})
				env.Snapshot()
			}
			threads := []func(){
				func() { errA = env.Write([]ek.Point{{sA, "n", 10, fv(1.5)}}) },
				func() { errB = env.Write([]ek.Point{{sA, "n", 11, iv(7)}}) },
				func() { readV, errR = env.ReadField("cpu", "v", influxql.Float, []string{"host"}, influxql.MinTime, influxql.MaxTime, true) },
			}
			switch sc.extra {
			case "snapshot":
				threads = append(threads, func() { errT = env.Snapshot() })
			case "delete-other-series":
				threads = append(threads, func() { errT = env.DeleteWhere("cpu", "host = 'other'") })
			case "compact":
				threads = append(threads, func() { _, _, errT = env.Engine.VCompact("full") })
			}
			focus := sc.focus
			if focus == nil {
				focus = []string{"github.com/influxdata/influxdb/tsdb"}
			}
			if sc.extra == "none" {
				threads = threads[:2]
			}
			synctest.Wait() // goroutines left over from the set-up (WAL sync, snapshot writers) finish or block first
			res = vsync.Run(chooser(tp, sc.delay), vsync.Config{Focus: focus}, threads...)
			if res.Deadlock || res.Livelock {
				out.Violation = fmt.Sprintf("deadlock=%v livelock=%v: %s", res.Deadlock, res.Livelock, strings.Join(res.Stuck, "; "))
				out.Sig = "deadlock:" + sc.extra
				out.Steps = res.Steps
				explore.Abort(tp, out)
			}
			// after quiescence, and again after reopen
			final = map[string]map[string][]ek.TV{}
			for pass := 0; pass < 2; pass++ {
				// the type field n ended up with, as the shard's field set records it
				ntyp := influxql.Unknown
				if mf := env.Shard.MeasurementFields([]byte("cpu")); mf != nil {
					if f := mf.Field("n"); f != nil {
						ntyp = f.Type
					}
				}
				for _, f := range []struct {
					name string
					typ  influxql.DataType
				}{{"v", influxql.Float}, {"n", ntyp}} {
					if f.typ == influxql.Unknown {
						finalErr = "field n has no type in the field set although a write creating it was acknowledged"
						continue
					}
					got, err := env.ReadField("cpu", f.name, f.typ, []string{"host"}, influxql.MinTime, influxql.MaxTime, true)
					if err != nil {
						finalErr = fmt.Sprintf("read of %s as %s failed: %v", f.name, f.typ, err)
						continue
					}
					final[fmt.Sprintf("%d:%s:%s", pass, f.name, f.typ)] = got
					if f.name == "n" {
						// the storage cursor returns what is physically stored for the key
						cur, cerr := env.ReadCursor(sA, "n", influxql.MinTime, influxql.MaxTime, true)
						if cerr != nil {
							finalErr = "cursor read of n failed: " + cerr.Error()
							continue
						}
						for _, tv := range cur {
							if tv.V.Typ != ntyp {
								finalErr = fmt.Sprintf("field n is recorded as %s but a stored value has type %s", ntyp, tv.V.Typ)
							}
						}
					}
				}
				if pass == 0 {
					if err := env.Reopen(); err != nil {
						finalErr = "reopen failed: " + err.Error()
						break
					}
				}
			}
			env.Close()
		})
		out.Steps = res.Steps
		if finalErr != "" {
			out.Violation, out.Sig = finalErr, "final-read-error"
			return out
		}
		okA, okB := errA == nil, errB == nil
		out.Obs = fmt.Sprintf("A=%v B=%v", okA, okB)
		// the reader saw every write acknowledged before it began (v@1,2 of series a at least)
		if errR != nil {
			out.Violation, out.Sig = "concurrent read failed: "+errR.Error(), "reader-error"
			return out
		}
		if got := readV[sA.Key()]; sc.extra != "none" && (len(got) < 2 || got[0].T != 1 || got[1].T != 2) {
			out.Violation = fmt.Sprintf("a read that began after v@1,2 were acknowledged returned %v for series a", got)
			out.Sig = "reader-missed-acked"
			return out
		}
		if sc.extra != "delete-other-series" && sc.extra != "none" {
			if got := readV[sO.Key()]; len(got) != 1 {
				out.Violation = fmt.Sprintf("a concurrent read returned %v for the untouched series", got)
				out.Sig = "reader-missed-acked"
				return out
			}
		}
		if errT != nil {
			out.Violation, out.Sig = fmt.Sprintf("%s failed: %v", sc.extra, errT), "third-op-error:"+sc.extra
			return out
		}
		if okA && okB {
			out.Violation = "two writes of different types to the same new field were both acknowledged"
			out.Sig = "field-two-types-acked"
			return out
		}
		if !okA && !okB {
			out.Violation = fmt.Sprintf("both conflicting writes were rejected (%v / %v): one of them must win", errA, errB)
			out.Sig = "both-writers-rejected"
			return out
		}
		for pass := 0; pass < 2; pass++ {
			when := []string{"after quiescence", "after reopen"}[pass]
			fl := final[fmt.Sprintf("%d:n:%s", pass, influxql.Float)][sA.Key()]
			in := final[fmt.Sprintf("%d:n:%s", pass, influxql.Integer)][sA.Key()]
			if len(fl) > 0 && len(in) > 0 {
				out.Violation = fmt.Sprintf("%s field n holds float values %v and integer values %v", when, fl, in)
				out.Sig = "field-two-types-stored"
				return out
			}
			if okA && (len(fl) != 1 || fl[0].T != 10 || fl[0].V.F != 1.5) {
				out.Violation = fmt.Sprintf("%s the acknowledged write n=1.5@10 reads back as %v (integer side: %v)", when, fl, in)
				out.Sig = "acked-write-lost"
				return out
			}
			if okB && (len(in) != 1 || in[0].T != 11 || in[0].V.I != 7) {
				out.Violation = fmt.Sprintf("%s the acknowledged write n=7i@11 reads back as %v (float side: %v)", when, in, fl)
				out.Sig = "acked-write-lost"
				return out
			}
			v := final[fmt.Sprintf("%d:v:%s", pass, influxql.Float)][sA.Key()]
			wantV := 2
			if sc.extra == "compact" {
				wantV = 3
			}
			if len(v) != wantV {
				out.Violation = fmt.Sprintf("%s series a field v reads %v, %d acknowledged points expected", when, v, wantV)
				out.Sig = "acked-write-lost"
				return out
			}
		}
		return out
	}
}

// tsiDeleteBody: a delete spanning two measurements on a tsi1 shard whose log file is compacted after every
// write (MaxIndexLogFileSize=1): the index compaction the first measurement's delete kicks off waits for the
// file-set reference held by the next measurement's series iterator, while the engine waits for the compaction.
func tsiDeleteBody(t *testing.T, sc scenario) func(tp *explore.Tape) explore.Outcome {
	return func(tp *explore.Tape) (out explore.Outcome) {
		dir := ek.NewTempDir("c19t")
		defer os.RemoveAll(dir)
		var res vsync.Result
		var derr error
		synctest.Test(t, func(t *testing.T) {
			env := &ek.Env{Dir: dir, IndexType: "tsi1", WAL: true, Configure: func(s *tsdb.Store) { s.EngineOptions.Config.MaxIndexLogFileSize = 1 }}
			if err := env.Open(); err != nil {
				panic(err)
			}
			sM := ek.Series{Measurement: "m", Tags: map[string]string{"host": "b"}}
			sN := ek.Series{Measurement: "n", Tags: map[string]string{"host": "b"}}
			env.Write([]ek.Point{{sM, "v", 1, fv(1)}})
			env.Write([]ek.Point{{sN, "v", 1, fv(1)}})
			if idx, _ := env.Shard.Index(); idx != nil {
				if ti, ok := idx.(*tsi1.Index); ok {
					ti.Wait()
				}
			}
			threads := []func(){func() { derr = env.DeleteWhere("", "host = 'b'") }}
			synctest.Wait()
			res = vsync.Run(chooser(tp, sc.delay), vsync.Config{Focus: []string{"github.com/influxdata/influxdb/tsdb"}, Horizon: time.Minute}, threads...)
			if res.Deadlock || res.Livelock {
				out.Violation = fmt.Sprintf("DROP SERIES over two measurements never returns (deadlock=%v): %s", res.Deadlock, strings.Join(res.Stuck, "; "))
				out.Sig = "deadlock:tsi1-delete-vs-log-compaction"
				out.Steps = res.Steps
				explore.Abort(tp, out)
			}
			env.Close()
		})
		out.Steps = res.Steps
		out.Obs = fmt.Sprintf("delete err=%v", derr != nil)
		return out
	}
}

func find(name string) (scenario, bool) {
	for _, s := range scenarios {
		if s.name == name {
			return s, true
		}
	}
	return scenario{}, false
}

func TestCheck(t *testing.T) {
	if name := explore.WorkerScenario(); name != "" {
		sc, ok := find(name)
		if !ok {
			t.Fatalf("unknown scenario %q", name)
		}
		explore.WorkerLoop(sc.body(t, sc))
		return
	}
	c := report.Begin("C19", "model_checking")
	c.Rule = "executions = schedules of 3-4 threads over the real code, every sync operation of the focus packages a scheduling point, enumerated depth-first within a delay/preemption bound; distinct = observable outcomes (which conflicting writer won, etc.)"
	c.Assumptions = []string{
		"scheduling points are sync.Mutex/RWMutex/WaitGroup/Once operations of the focus packages; sync/atomic and channel operations are not scheduling points; data races are invisible to a cooperative scheduler (no race-detector pass is claimed here)",
		"bounded: 3-4 threads, delay bound 1 (2 thorough) for the storage engine, preemption bound 2 (3) for the small components",
	}
	if *replayFile != "" {
		rp, err := report.LoadReplay(*replayFile)
		if err != nil {
			t.Fatal(err)
		}
		sc, ok := find(rp.Config["scenario"])
		if !ok {
			t.Fatalf("unknown scenario %q", rp.Config["scenario"])
		}
		out, tp := explore.Replay(rp.Tape, sc.body(t, sc))
		fmt.Printf("replay %s\n%d choices\noutcome: %+v\n", sc.name, len(tp.Choices), out)
		if out.Violation != "" {
			report.ExitCode = 1
		}
		return
	}
	for _, sc := range scenarios {
		bound := sc.bound[0]
		if c.Thorough() {
			bound = sc.bound[1]
		}
		r := explore.ExploreProcs(explore.ProcConfig{Scenario: sc.name, Bound: bound, Procs: 16, Budget: 50, MaxExecs: int64(c.Pick(20000, 400000))})
		c.AddExplore(fmt.Sprintf("%s (bound %d)", sc.name, bound), r, map[string]any{"scenario": sc.name, "bound": bound})
	}
	report.ExitCode = c.Finish()
}

func TestMain(m *testing.M) { flag.Parse(); report.Main(m.Run) }
