package c19

import (
	"bytes"
	"errors"
	"fmt"
	"io"
	"net"
	"os"
	"strings"
	"sync/atomic"
	"testing"
	"testing/synctest"
	"time"

	"github.com/influxdata/influxdb/coordinator"
	"github.com/influxdata/influxdb/models"
	"github.com/influxdata/influxdb/pkg/vsync"
	"github.com/influxdata/influxdb/services/hh"
	"github.com/influxdata/influxdb/services/meta"
	"github.com/influxdata/influxdb/toml"

	"verif/harness/metakit"
	"verif/mc/explore"
)

func init() {
	scenarios = append(scenarios,
		scenario{name: "meta: Apply x Snapshot..Persist x Apply", bound: [2]int{2, 3}, body: metaBody},
		scenario{name: "hh service: WriteShard x WriteShard x SendWrite x Close", bound: [2]int{2, 3}, body: hhBody},
		scenario{name: "pool: Get/Close(conn) x Get/Close(conn) x pool.Close", bound: [2]int{2, 3}, body: poolBody},
	)
}

// ---- (2) metadata FSM

type memSink struct {
	bytes.Buffer
}

func (s *memSink) ID() string    { return "verif" }
func (s *memSink) Cancel() error { return nil }
func (s *memSink) Close() error  { return nil }

func metaBody(t *testing.T, sc scenario) func(tp *explore.Tape) explore.Outcome {
	return func(tp *explore.Tape) (out explore.Outcome) {
		var res vsync.Result
		var restored string
		var perr error
		synctest.Test(t, func(t *testing.T) {
			f := meta.NewVerifFSM(true)
			idx := uint64(1)
			for _, cmd := range [][]byte{
				meta.VCreateDataNode("n1:8086", "n1:8088"), meta.VCreateDataNode("n2:8086", "n2:8088"), meta.VCreateDataNode("n3:8086", "n3:8088"),
				meta.VCreateDatabaseWithRP("a", "x", 3, 0, time.Hour), meta.VCreateShardGroup("a", "x", metakit.T0.UnixNano()),
				meta.VCreateSubscription("a", "x", "s0", "ALL", []string{"udp://h:9"}),
			} {
				idx++
				f.Apply(idx, 1, cmd)
			}
			var next atomic.Uint64
			next.Store(idx)
			apply := func(cmd []byte) { f.Apply(next.Add(1), 1, cmd) }
			threads := []func(){
				func() { apply(meta.VRemoveShardOwner(1, 1)); apply(meta.VUpdateDataNode(2, "n2b:8086", "n2b:8088")) },
				func() {
					snap, err := f.Snapshot()
					if err != nil {
						perr = err
						return
					}
					// the image is fixed from here on
					vsync.Yield()
					vsync.Yield()
					sk := &memSink{}
					if err := snap.Persist(sk); err != nil {
						perr = err
						return
					}
					r := meta.NewVerifFSM(true)
					if err := r.Restore(sk.Bytes()); err != nil {
						perr = err
						return
					}
					restored = metakit.Dump(r.Data(), 0)
				},
				func() { apply(meta.VDeleteDataNode(3)); apply(meta.VCreateSubscription("a", "x", "s1", "ANY", []string{"udp://h:1"})) },
			}
			res = vsync.Run(chooser(tp, false), vsync.Config{Focus: []string{"github.com/influxdata/influxdb/services/meta"}}, threads...)
			if res.Deadlock || res.Livelock {
				out.Violation, out.Sig = "deadlock: "+strings.Join(res.Stuck, "; "), "deadlock:meta"
				explore.Abort(tp, out)
			}
		})
		out.Steps = res.Steps
		if perr != nil {
			out.Violation, out.Sig = "snapshot/persist/restore failed: "+perr.Error(), "meta-snapshot-error"
			return out
		}
		// the restored image must be one of the states the log passes through (a point-in-time image):
		// rebuild every prefix state of every serialisation of the two appliers and compare
		if !validMetaImage(restored) {
			out.Violation = "a snapshot persisted while commands were applied restores to a state the metadata never was in:\n" + restored
			out.Sig = "meta-snapshot-not-point-in-time"
			return out
		}
		out.Obs = fmt.Sprintf("image-bytes=%d", len(restored))
		return out
	}
}

var metaStates map[string]bool

// validMetaImage: the set of (index, dump) pairs reachable by any interleaving of the two appliers' command lists.
func validMetaImage(img string) bool {
	if metaStates == nil {
		metaStates = map[string]bool{}
		base := [][]byte{
			meta.VCreateDataNode("n1:8086", "n1:8088"), meta.VCreateDataNode("n2:8086", "n2:8088"), meta.VCreateDataNode("n3:8086", "n3:8088"),
			meta.VCreateDatabaseWithRP("a", "x", 3, 0, time.Hour), meta.VCreateShardGroup("a", "x", metakit.T0.UnixNano()),
			meta.VCreateSubscription("a", "x", "s0", "ALL", []string{"udp://h:9"}),
		}
		a := [][]byte{meta.VRemoveShardOwner(1, 1), meta.VUpdateDataNode(2, "n2b:8086", "n2b:8088")}
		b := [][]byte{meta.VDeleteDataNode(3), meta.VCreateSubscription("a", "x", "s1", "ANY", []string{"udp://h:1"})}
		var orders [][][]byte
		var rec func(i, j int, cur [][]byte)
		rec = func(i, j int, cur [][]byte) {
			orders = append(orders, append([][]byte(nil), cur...))
			if i < len(a) {
				rec(i+1, j, append(cur, a[i]))
			}
			if j < len(b) {
				rec(i, j+1, append(cur, b[j]))
			}
		}
		rec(0, 0, nil)
		for _, o := range orders {
			f := meta.NewVerifFSM(true)
			idx := uint64(1)
			for _, c := range base {
				idx++
				f.Apply(idx, 1, c)
			}
			for _, c := range o {
				idx++
				f.Apply(idx, 1, c)
			}
			metaStates[metakit.Dump(f.Data(), 0)] = true
		}
	}
	return metaStates[img]
}

// ---- (3) hinted handoff service

type hhWriter struct {
	delivered atomic.Int64
	points    atomic.Int64
}

func (w *hhWriter) WriteShardBinary(shardID, ownerID uint64, points [][]byte) error {
	w.delivered.Add(1)
	w.points.Add(int64(len(points)))
	return nil
}

type hhMeta struct{}

func (hhMeta) DataNode(id uint64) (*meta.NodeInfo, error) { return &meta.NodeInfo{ID: id}, nil }

func hhBody(t *testing.T, sc scenario) func(tp *explore.Tape) explore.Outcome {
	return func(tp *explore.Tape) (out explore.Outcome) {
		dir, _ := os.MkdirTemp("/dev/shm", "verif-c19hh-")
		defer os.RemoveAll(dir)
		var res vsync.Result
		var errs [2]error
		w := &hhWriter{}
		var sent int
		var left int
		var lerr error
		synctest.Test(t, func(t *testing.T) {
			cfg := hh.NewConfig()
			cfg.Enabled = true
			cfg.Dir = dir
			cfg.RetryInterval = toml.Duration(time.Hour)
			cfg.RetryMaxInterval = toml.Duration(time.Hour)
			cfg.PurgeInterval = toml.Duration(24 * time.Hour)
			svc := hh.NewService(cfg, w)
			svc.MetaClient = hhMeta{}
			if err := svc.Open(); err != nil {
				panic(err)
			}
			pt := func(i int) []models.Point {
				return []models.Point{models.MustNewPoint("cpu", models.NewTags(map[string]string{"h": "a"}), models.Fields{"v": float64(i)}, time.Unix(0, int64(i)))}
			}
			threads := []func(){
				func() { errs[0] = svc.WriteShard(7, 2, pt(1)) },
				func() { errs[1] = svc.WriteShard(7, 2, pt(2)) },
				func() {
					if p := svc.VProcessor(2, 7); p != nil {
						if n, err := p.SendWrite(); err == nil && n > 0 {
							sent++
						}
					}
				},
				func() { svc.Close() },
			}
			res = vsync.Run(chooser(tp, false), vsync.Config{Focus: []string{"github.com/influxdata/influxdb/services/hh", "github.com/influxdata/influxdb/pkg/limiter"}, Trace: os.Getenv("VERIF_DEBUG") != ""}, threads...)
			if res.Deadlock || res.Livelock {
				out.Violation, out.Sig = "deadlock: "+strings.Join(res.Stuck, "; "), "deadlock:hh"
				explore.Abort(tp, out)
			}
			svc.Close()
			if os.Getenv("VERIF_DEBUG") != "" {
				for _, l := range res.Trace {
					fmt.Println("TRACE", l)
				}
				es, _ := os.ReadDir(fmt.Sprintf("%s/2/7", dir))
				for _, e := range es {
					b, _ := os.ReadFile(fmt.Sprintf("%s/2/7/%s", dir, e.Name()))
					fmt.Printf("FILE %s %d bytes %x\n", e.Name(), len(b), b)
				}
			}
			// what is left in the queue after everything stopped
			q, err := hh.VNewQueue(fmt.Sprintf("%s/2/7", dir), 1<<30, 10)
			if err == nil {
				if _, serr := os.Stat(fmt.Sprintf("%s/2/7", dir)); serr == nil {
					if err := q.Open(); err != nil {
						lerr = err
					} else {
						for i := 0; i < 10; i++ {
							_, err := q.Current()
							if err == io.EOF {
								if q.Advance() != nil {
									break
								}
								if _, err2 := q.Current(); err2 != nil {
									break
								}
							} else if err != nil {
								lerr = err
								break
							}
							left++
							if q.Advance() != nil {
								break
							}
						}
						q.Close()
					}
				}
			}
		})
		out.Steps = res.Steps
		if lerr != nil {
			out.Violation, out.Sig = "the queue left behind cannot be read: "+lerr.Error(), "hh-queue-unreadable"
			return out
		}
		acked := 0
		for _, e := range errs {
			if e == nil {
				acked++
			}
		}
		got := int(w.delivered.Load()) + left
		out.Obs = fmt.Sprintf("acked=%d delivered=%d left=%d", acked, w.delivered.Load(), left)
		if got < acked {
			out.Violation = fmt.Sprintf("%d hinted writes were accepted, but only %d were delivered and %d are left in the queue after shutdown", acked, w.delivered.Load(), left)
			out.Sig = "hh-accepted-write-lost"
			out.Detail = fmt.Sprintf("errs=%v/%v sent=%d", errs[0], errs[1], sent)
			return out
		}
		return out
	}
}

// ---- (4) connection pool

type fakeConn struct {
	closed *atomic.Int64
	done   atomic.Bool
}

func (c *fakeConn) Read(b []byte) (int, error)  { return 0, io.EOF }
func (c *fakeConn) Write(b []byte) (int, error) { return len(b), nil }
func (c *fakeConn) Close() error {
	if c.done.CompareAndSwap(false, true) {
		c.closed.Add(1)
		return nil
	}
	return errors.New("closed twice")
}
func (c *fakeConn) LocalAddr() net.Addr                { return nil }
func (c *fakeConn) RemoteAddr() net.Addr               { return nil }
func (c *fakeConn) SetDeadline(t time.Time) error      { return nil }
func (c *fakeConn) SetReadDeadline(t time.Time) error  { return nil }
func (c *fakeConn) SetWriteDeadline(t time.Time) error { return nil }

func poolBody(t *testing.T, sc scenario) func(tp *explore.Tape) explore.Outcome {
	return func(tp *explore.Tape) (out explore.Outcome) {
		var res vsync.Result
		var opened, closed atomic.Int64
		var gerr [2]error
		var sizeAtEnd int
		synctest.Test(t, func(t *testing.T) {
			p, err := coordinator.NewBoundedPool(1, 2, 0, func() (net.Conn, error) {
				opened.Add(1)
				return &fakeConn{closed: &closed}, nil
			})
			if err != nil {
				panic(err)
			}
			use := func(i int) func() {
				return func() {
					c, err := p.Get()
					gerr[i] = err
					if err == nil {
						c.Close() // back to the pool (or closed if the pool is gone / full)
					}
				}
			}
			threads := []func(){use(0), use(1), func() { p.Close() }}
			res = vsync.Run(chooser(tp, false), vsync.Config{Focus: []string{"github.com/influxdata/influxdb/coordinator.(*boundedPool)", "github.com/influxdata/influxdb/coordinator.(*pooledConn)"}, Horizon: 10 * time.Second}, threads...)
			if res.Deadlock || res.Livelock {
				out.Violation, out.Sig = "deadlock: "+strings.Join(res.Stuck, "; "), "deadlock:pool"
				explore.Abort(tp, out)
			}
			sizeAtEnd = p.Size()
			p.Close()
		})
		out.Steps = res.Steps
		out.Obs = fmt.Sprintf("get=%v/%v opened=%d", gerr[0] == nil, gerr[1] == nil, opened.Load())
		if opened.Load() != closed.Load() {
			out.Violation = fmt.Sprintf("%d connections were opened but %d closed after the pool was closed and every user returned its connection", opened.Load(), closed.Load())
			out.Sig = "pool-connection-leak"
			return out
		}
		if opened.Load() > 2+1 {
			out.Violation = fmt.Sprintf("%d connections opened with capacity 2", opened.Load())
			out.Sig = "pool-over-capacity"
		}
		_ = sizeAtEnd
		return out
	}
}
