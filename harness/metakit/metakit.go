// Package metakit holds what the metadata harnesses (C06, C07, C17) share: the
// command alphabet (real marshalled internal.Command values), the canonical
// dump of meta.Data and the invariant checker.
package metakit

import (
	"fmt"
	"sort"
	"strings"
	"time"

	"github.com/influxdata/influxdb/models"
	"github.com/influxdata/influxdb/services/meta"
	"github.com/influxdata/influxql"
)

// T0 is the bubble epoch (synctest clocks start at 2000-01-01 UTC).
var T0 = time.Date(2000, 1, 1, 0, 0, 0, 0, time.UTC)

// Cmd is one element of the command alphabet.
type Cmd struct {
	Name string
	Data []byte
	// Advance > 0: not a command, the wall clock advances instead.
	Advance time.Duration
}

const H = time.Hour

// Alphabet returns the command alphabet. Small fixed ids are used for shard
// groups, shards and nodes; they match in the states where such ids exist.
func Alphabet(level int) []Cmd {
	t := func(d time.Duration) int64 { return T0.Add(d).UnixNano() }
	a := []Cmd{
		{Name: "CreateDataNode(n1)", Data: meta.VCreateDataNode("n1:8086", "n1:8088")},
		{Name: "CreateDataNode(n2)", Data: meta.VCreateDataNode("n2:8086", "n2:8088")},
		{Name: "CreateDataNode(n3)", Data: meta.VCreateDataNode("n3:8086", "n3:8088")},
		{Name: "DeleteDataNode(1)", Data: meta.VDeleteDataNode(1)},
		{Name: "DeleteDataNode(2)", Data: meta.VDeleteDataNode(2)},
		{Name: "DeleteDataNode(3)", Data: meta.VDeleteDataNode(3)},
		{Name: "UpdateDataNode(2,n2b)", Data: meta.VUpdateDataNode(2, "n2b:8086", "n2b:8088")},
		{Name: "CreateMetaNode(m1)", Data: meta.VCreateMetaNode("m1:8091", "m1:8089", 42)},
		{Name: "CreateMetaNode(n3 addr)", Data: meta.VCreateMetaNode("n3:8091", "n3:8088", 43)},
		{Name: "DeleteMetaNode(1)", Data: meta.VDeleteMetaNode(1)},
		{Name: "CreateDatabase(a)", Data: meta.VCreateDatabase("a")},
		{Name: "CreateDatabase(a,rp x rf2 1h)", Data: meta.VCreateDatabaseWithRP("a", "x", 2, 0, H)},
		{Name: "CreateDatabase(b)", Data: meta.VCreateDatabase("b")},
		{Name: "DropDatabase(a)", Data: meta.VDropDatabase("a")},
		{Name: "CreateRP(a,x,rf1,2h,1h)", Data: meta.VCreateRetentionPolicy("a", "x", 1, 2*H, H, true)},
		{Name: "CreateRP(a,x,rf2,0,1h)", Data: meta.VCreateRetentionPolicy("a", "x", 2, 0, H, false)},
		{Name: "CreateRP(a,y,rf3,0,0)", Data: meta.VCreateRetentionPolicy("a", "y", 3, 0, 0, false)},
		{Name: "CreateRP(a,z,dur30m invalid)", Data: meta.VCreateRetentionPolicy("a", "z", 1, 30*time.Minute, 0, false)},
		{Name: "DropRP(a,x)", Data: meta.VDropRetentionPolicy("a", "x")},
		{Name: "UpdateRP(a,x,sgd=2h)", Data: meta.VUpdateRetentionPolicy("a", "x", "", -1, -1, 2*H, false)},
		{Name: "UpdateRP(a,x,rf=2)", Data: meta.VUpdateRetentionPolicy("a", "x", "", -1, 2, -1, false)},
		{Name: "UpdateRP(a,x,name=y)", Data: meta.VUpdateRetentionPolicy("a", "x", "y", -1, -1, -1, false)},
		{Name: "UpdateRP(a,x,dur=30m invalid)", Data: meta.VUpdateRetentionPolicy("a", "x", "", 30*time.Minute, -1, -1, false)},
		{Name: "CreateShardGroup(a,x,T0)", Data: meta.VCreateShardGroup("a", "x", t(0))},
		{Name: "CreateShardGroup(a,x,T0+1h-1)", Data: meta.VCreateShardGroup("a", "x", t(H)-1)},
		{Name: "CreateShardGroup(a,x,T0+1h)", Data: meta.VCreateShardGroup("a", "x", t(H))},
		{Name: "CreateShardGroup(a,x,T0+90m)", Data: meta.VCreateShardGroup("a", "x", t(90*time.Minute))},
		{Name: "CreateShardGroup(a,x,MaxNano)", Data: meta.VCreateShardGroup("a", "x", models.MaxNanoTime)},
		{Name: "CreateShardGroup(a,nope,T0)", Data: meta.VCreateShardGroup("a", "nope", t(0))},
		{Name: "DeleteShardGroup(a,x,1)", Data: meta.VDeleteShardGroup("a", "x", 1)},
		{Name: "DeleteShardGroup(a,x,2)", Data: meta.VDeleteShardGroup("a", "x", 2)},
		{Name: "TruncateShardGroups(T0+30m)", Data: meta.VTruncateShardGroups(t(30 * time.Minute))},
		{Name: "TruncateShardGroups(T0+45m)", Data: meta.VTruncateShardGroups(t(45 * time.Minute))},
		{Name: "TruncateShardGroups(T0+90m)", Data: meta.VTruncateShardGroups(t(90 * time.Minute))},
		{Name: "PruneShardGroups", Data: meta.VPruneShardGroups()},
		{Name: "DropShard(1)", Data: meta.VDropShard(1)},
		{Name: "DropShard(2)", Data: meta.VDropShard(2)},
		{Name: "CopyShardOwner(1->2)", Data: meta.VCopyShardOwner(1, 2)},
		{Name: "CopyShardOwner(1->3)", Data: meta.VCopyShardOwner(1, 3)},
		{Name: "CopyShardOwner(1->9)", Data: meta.VCopyShardOwner(1, 9)},
		{Name: "RemoveShardOwner(1,1)", Data: meta.VRemoveShardOwner(1, 1)},
		{Name: "RemoveShardOwner(1,2)", Data: meta.VRemoveShardOwner(1, 2)},
		{Name: "advance-clock(15d)", Advance: 15 * 24 * H},
	}
	if level >= 1 {
		a = append(a,
			Cmd{Name: "CreateUser(u,admin)", Data: meta.VCreateUser("u", "hash1", true)},
			Cmd{Name: "CreateUser(u,plain,other hash)", Data: meta.VCreateUser("u", "hash2", false)},
			Cmd{Name: "CreateUser(v,plain)", Data: meta.VCreateUser("v", "hash3", false)},
			Cmd{Name: "DropUser(u)", Data: meta.VDropUser("u")},
			Cmd{Name: "UpdateUser(u,hash9)", Data: meta.VUpdateUser("u", "hash9")},
			Cmd{Name: "SetPrivilege(v,a,READ)", Data: meta.VSetPrivilege("v", "a", int(influxql.ReadPrivilege))},
			Cmd{Name: "SetPrivilege(v,a,ALL)", Data: meta.VSetPrivilege("v", "a", int(influxql.AllPrivileges))},
			Cmd{Name: "SetPrivilege(v,nodb,READ)", Data: meta.VSetPrivilege("v", "nodb", int(influxql.ReadPrivilege))},
			Cmd{Name: "SetAdminPrivilege(v,true)", Data: meta.VSetAdminPrivilege("v", true)},
			Cmd{Name: "SetAdminPrivilege(u,false)", Data: meta.VSetAdminPrivilege("u", false)},
			Cmd{Name: "CreateCQ(a,q,Q1)", Data: meta.VCreateContinuousQuery("a", "q", "CREATE CONTINUOUS QUERY q ON a BEGIN SELECT count(v) INTO m2 FROM m GROUP BY time(1h) END")},
			Cmd{Name: "CreateCQ(a,q,Q2 conflicting)", Data: meta.VCreateContinuousQuery("a", "q", "CREATE CONTINUOUS QUERY q ON a BEGIN SELECT sum(v) INTO m2 FROM m GROUP BY time(1h) END")},
			Cmd{Name: "DropCQ(a,q)", Data: meta.VDropContinuousQuery("a", "q")},
			Cmd{Name: "CreateSubscription(a,x,s)", Data: meta.VCreateSubscription("a", "x", "s", "ALL", []string{"udp://h:1"})},
			Cmd{Name: "CreateSubscription(a,x,s2)", Data: meta.VCreateSubscription("a", "x", "s2", "ANY", []string{"udp://h:2"})},
			Cmd{Name: "DropSubscription(a,x,s)", Data: meta.VDropSubscription("a", "x", "s")},
			Cmd{Name: "SetMetaNode(m1)", Data: meta.VSetMetaNode("m1:8091", "m1:8089", 44)},
		)
	}
	return a
}

// Dump renders every replicated field of d in a canonical order. Wall-clock
// stamps of deletion are reduced to a boolean (they are taken from the local
// clock of the applying replica). Term/Index are excluded; idxMod > 0 adds
// Index mod idxMod (the only way Index influences later behaviour).
func Dump(d *meta.Data, idxMod uint64) string {
	var b strings.Builder
	fmt.Fprintf(&b, "cluster=%d maxnode=%d maxsg=%d maxshard=%d", d.ClusterID, d.MaxNodeID, d.MaxShardGroupID, d.MaxShardID)
	if idxMod > 0 {
		fmt.Fprintf(&b, " idx%%%d=%d", idxMod, d.Index%idxMod)
	}
	b.WriteString("\nmeta:")
	for _, n := range d.MetaNodes {
		fmt.Fprintf(&b, " %d/%s/%s", n.ID, n.Addr, n.TCPAddr)
	}
	b.WriteString("\ndata:")
	for _, n := range d.DataNodes {
		fmt.Fprintf(&b, " %d/%s/%s", n.ID, n.Addr, n.TCPAddr)
	}
	for _, db := range d.Databases {
		fmt.Fprintf(&b, "\ndb %s default=%s", db.Name, db.DefaultRetentionPolicy)
		for _, rp := range db.RetentionPolicies {
			fmt.Fprintf(&b, "\n rp %s rf=%d dur=%s sgd=%s", rp.Name, rp.ReplicaN, rp.Duration, rp.ShardGroupDuration)
			for _, g := range rp.ShardGroups {
				fmt.Fprintf(&b, "\n  sg %d [%d,%d) del=%v trunc=%d:", g.ID, g.StartTime.UnixNano(), g.EndTime.UnixNano(), g.Deleted(), truncNano(g))
				for _, s := range g.Shards {
					fmt.Fprintf(&b, " %d{", s.ID)
					for _, o := range s.Owners {
						fmt.Fprintf(&b, "%d,", o.NodeID)
					}
					b.WriteString("}")
				}
			}
			for _, s := range rp.Subscriptions {
				fmt.Fprintf(&b, "\n  sub %s %s %v", s.Name, s.Mode, s.Destinations)
			}
		}
		for _, q := range db.ContinuousQueries {
			fmt.Fprintf(&b, "\n cq %s %q", q.Name, q.Query)
		}
	}
	for _, u := range d.Users {
		fmt.Fprintf(&b, "\nuser %s %s admin=%v", u.Name, u.Hash, u.Admin)
		var dbs []string
		for k := range u.Privileges {
			dbs = append(dbs, k)
		}
		sort.Strings(dbs)
		for _, k := range dbs {
			fmt.Fprintf(&b, " %s=%d", k, u.Privileges[k])
		}
	}
	return b.String()
}

func truncNano(g meta.ShardGroupInfo) int64 {
	if !g.Truncated() {
		return 0
	}
	return g.TruncatedAt.UnixNano()
}

// IDs collects the identifiers present in d.
type IDs struct {
	Groups, Shards map[uint64]bool
}

// CollectIDs returns all shard-group and shard ids present in d.
func CollectIDs(d *meta.Data) IDs {
	ids := IDs{Groups: map[uint64]bool{}, Shards: map[uint64]bool{}}
	for _, db := range d.Databases {
		for _, rp := range db.RetentionPolicies {
			for _, g := range rp.ShardGroups {
				ids.Groups[g.ID] = true
				for _, s := range g.Shards {
					ids.Shards[s.ID] = true
				}
			}
		}
	}
	return ids
}

// Invariants checks the state invariants of C06 on d. prev is the state before
// the last command (nil for the initial state).
func Invariants(prev, d *meta.Data) (viol, sig string) {
	nodes := map[uint64]bool{}
	for _, n := range d.DataNodes {
		if nodes[n.ID] {
			return fmt.Sprintf("data node id %d appears twice", n.ID), "dup-node-id"
		}
		nodes[n.ID] = true
		if n.ID > d.MaxNodeID {
			return fmt.Sprintf("data node id %d above MaxNodeID %d", n.ID, d.MaxNodeID), "node-id-above-counter"
		}
	}
	seenG, seenS := map[uint64]bool{}, map[uint64]bool{}
	for _, db := range d.Databases {
		for _, rp := range db.RetentionPolicies {
			var live []meta.ShardGroupInfo
			for _, g := range rp.ShardGroups {
				if seenG[g.ID] {
					return fmt.Sprintf("shard group id %d appears twice", g.ID), "dup-group-id"
				}
				seenG[g.ID] = true
				if g.ID > d.MaxShardGroupID {
					return fmt.Sprintf("shard group id %d above MaxShardGroupID %d", g.ID, d.MaxShardGroupID), "group-id-above-counter"
				}
				for _, s := range g.Shards {
					if seenS[s.ID] {
						return fmt.Sprintf("shard id %d appears twice", s.ID), "dup-shard-id"
					}
					seenS[s.ID] = true
					if s.ID > d.MaxShardID {
						return fmt.Sprintf("shard id %d above MaxShardID %d", s.ID, d.MaxShardID), "shard-id-above-counter"
					}
					if !g.Deleted() {
						own := map[uint64]bool{}
						for _, o := range s.Owners {
							if !nodes[o.NodeID] {
								return fmt.Sprintf("shard %d of live group %d is owned by node %d which is not a data node", s.ID, g.ID, o.NodeID), "owner-not-a-node"
							}
							if own[o.NodeID] {
								return fmt.Sprintf("shard %d lists owner %d twice", s.ID, o.NodeID), "dup-owner"
							}
							own[o.NodeID] = true
						}
					}
				}
				if !g.Deleted() {
					live = append(live, g)
				}
			}
			for i := range live {
				for j := i + 1; j < len(live); j++ {
					a, c := live[i], live[j]
					ae, ce := a.EndTime, c.EndTime
					if a.Truncated() {
						ae = a.TruncatedAt
					}
					if c.Truncated() {
						ce = c.TruncatedAt
					}
					if a.StartTime.Before(ce) && c.StartTime.Before(ae) {
						return fmt.Sprintf("live shard groups %d [%s,%s) and %d [%s,%s) of %s.%s overlap", a.ID, a.StartTime, ae, c.ID, c.StartTime, ce, db.Name, rp.Name), "overlap"
					}
				}
			}
		}
	}
	if prev != nil {
		if d.MaxNodeID < prev.MaxNodeID || d.MaxShardGroupID < prev.MaxShardGroupID || d.MaxShardID < prev.MaxShardID {
			return "an id counter decreased", "counter-decreased"
		}
		before := CollectIDs(prev)
		for _, db := range d.Databases {
			for _, rp := range db.RetentionPolicies {
				for _, g := range rp.ShardGroups {
					if !before.Groups[g.ID] {
						if g.ID <= prev.MaxShardGroupID {
							return fmt.Sprintf("new shard group reuses id %d (counter was %d)", g.ID, prev.MaxShardGroupID), "group-id-reused"
						}
						if v, s := newGroupOK(d, rp, g, nodes); v != "" {
							return v, s
						}
					}
					for _, s := range g.Shards {
						if !before.Shards[s.ID] && s.ID <= prev.MaxShardID {
							return fmt.Sprintf("new shard reuses id %d (counter was %d)", s.ID, prev.MaxShardID), "shard-id-reused"
						}
					}
				}
			}
		}
	}
	return "", ""
}

func newGroupOK(d *meta.Data, rp meta.RetentionPolicyInfo, g meta.ShardGroupInfo, nodes map[uint64]bool) (string, string) {
	rf := rp.ReplicaN
	if rf < 1 {
		rf = 1
	}
	if rf > len(nodes) {
		rf = len(nodes)
	}
	per := map[uint64]int{}
	for _, s := range g.Shards {
		if len(s.Owners) != rf {
			return fmt.Sprintf("shard %d of new group %d has %d owners, expected min(rf,nodes)=%d", s.ID, g.ID, len(s.Owners), rf), "new-group-owner-count"
		}
		for _, o := range s.Owners {
			per[o.NodeID]++
		}
	}
	if len(g.Shards) == 0 {
		return fmt.Sprintf("new group %d has no shards", g.ID), "new-group-empty"
	}
	want := len(g.Shards) * rf / len(nodes)
	if len(g.Shards)*rf%len(nodes) != 0 {
		return fmt.Sprintf("new group %d: %d shards x rf %d does not divide over %d nodes", g.ID, len(g.Shards), rf, len(nodes)), "new-group-uneven"
	}
	for n := range nodes {
		if per[n] != want {
			return fmt.Sprintf("new group %d: node %d owns %d shard replicas, expected %d (even spread)", g.ID, n, per[n], want), "new-group-uneven"
		}
	}
	return "", ""
}
