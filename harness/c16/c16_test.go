// C16: requests run only with valid credentials and sufficient grants.
//
// (i) Every statement of a catalogue (one or more texts per statement type of
// the parser, explicit / default database), alone and in pairs, x users (none,
// unknown, wrong password, non-admin with every grant combination on two
// databases, admin) x credential carriers (query params, basic, Token header,
// bearer valid / expired / without exp / wrong key / unknown user, none) x
// endpoints (query, write) goes through the real httpd.Handler with
// authentication enabled, the real QueryAuthorizer / WriteAuthorizer and a
// real meta.Client; a recording executor tells whether anything ran. The
// decision is compared with an independent model of the authorisation rules.
// (ii) Explicit-state BFS over histories of user/grant/password changes that
// reach the node (installed into the client like its polling loop does),
// interleaved with authentications that populate the credential cache.
package c16

import (
	"flag"
	"fmt"
	"net/http"
	"net/http/httptest"
	"net/url"
	"sort"
	"strings"
	"sync"
	"testing"
	"time"

	jwt "github.com/dgrijalva/jwt-go/v4"
	"github.com/influxdata/influxdb/models"
	"github.com/influxdata/influxdb/query"
	"github.com/influxdata/influxdb/services/httpd"
	"github.com/influxdata/influxdb/services/meta"
	"github.com/influxdata/influxql"
	"golang.org/x/crypto/bcrypt"

	"verif/mc/explore"
	"verif/mc/report"
)

var replayFile = flag.String("replay", "", "replay file")

const secret = "verif-shared-secret"

var hashes = map[string]string{}
var hashMu sync.Mutex

func hashOf(pw string) string {
	hashMu.Lock()
	defer hashMu.Unlock()
	if h, ok := hashes[pw]; ok {
		return h
	}
	b, err := bcrypt.GenerateFromPassword([]byte(pw), bcrypt.MinCost)
	if err != nil {
		panic(err)
	}
	hashes[pw] = string(b)
	return string(b)
}

type recorder struct {
	mu       sync.Mutex
	executed []string
	writes   int
}

func (r *recorder) ExecuteStatement(ctx *query.ExecutionContext, stmt influxql.Statement) error {
	r.mu.Lock()
	r.executed = append(r.executed, stmt.String())
	r.mu.Unlock()
	return ctx.Send(&query.Result{Messages: []*query.Message{{Level: "info", Text: "recorded"}}})
}

func (r *recorder) WritePoints(database, retentionPolicy string, consistencyLevel models.ConsistencyLevel, user meta.User, points []models.Point) error {
	r.mu.Lock()
	r.writes++
	r.mu.Unlock()
	return nil
}

type env struct {
	client *meta.Client
	h      *httpd.Handler
	rec    *recorder
}

func newEnv(d *meta.Data) *env {
	c := meta.NewClient(meta.NewConfig())
	meta.VClientInstall(c, d)
	cfg := httpd.NewConfig()
	cfg.AuthEnabled = true
	cfg.SharedSecret = secret
	cfg.LogEnabled = false
	h := httpd.NewHandler(cfg)
	rec := &recorder{}
	h.MetaClient = c
	h.QueryAuthorizer = meta.NewQueryAuthorizer(c)
	h.WriteAuthorizer = meta.NewWriteAuthorizer(c)
	h.QueryExecutor = query.NewExecutor()
	h.QueryExecutor.StatementExecutor = rec
	h.PointsWriter = rec
	h.Version = "verif"
	return &env{c, h, rec}
}

// ---- user population

type userSpec struct {
	name   string
	exists bool
	admin  bool
	db1    influxql.Privilege
	db2    influxql.Privilege
}

func buildData(us []userSpec) *meta.Data {
	d := &meta.Data{}
	d.CreateDatabase("db1")
	d.CreateDatabase("db2")
	for _, u := range us {
		if !u.exists {
			continue
		}
		d.CreateUser(u.name, hashOf("pw-"+u.name), u.admin)
		if u.db1 != influxql.NoPrivileges {
			d.SetPrivilege(u.name, "db1", u.db1)
		}
		if u.db2 != influxql.NoPrivileges {
			d.SetPrivilege(u.name, "db2", u.db2)
		}
	}
	return d
}

// ---- carriers

type carrier struct {
	name  string
	apply func(r *http.Request, q url.Values, user, pw string)
	// what the carrier proves: "password" (user+pw as given), "token-ok" (user asserted by a valid token), "none"
	kind string
}

func bearer(user string, key string, exp *time.Time) string {
	claims := jwt.MapClaims{"username": user}
	if exp != nil {
		claims["exp"] = exp.Unix()
	}
	tok := jwt.NewWithClaims(jwt.SigningMethodHS512, claims)
	s, err := tok.SignedString([]byte(key))
	if err != nil {
		panic(err)
	}
	return s
}

var future = time.Now().Add(time.Hour)
var past = time.Now().Add(-time.Hour)

var carriers = []carrier{
	{"query-params", func(r *http.Request, q url.Values, u, p string) { q.Set("u", u); q.Set("p", p) }, "password"},
	{"basic", func(r *http.Request, q url.Values, u, p string) { r.SetBasicAuth(u, p) }, "password"},
	{"token-header", func(r *http.Request, q url.Values, u, p string) { r.Header.Set("Authorization", "Token "+u+":"+p) }, "password"},
	{"bearer-valid", func(r *http.Request, q url.Values, u, p string) {
		r.Header.Set("Authorization", "Bearer "+bearer(u, secret, &future))
	}, "token-ok"},
	{"bearer-expired", func(r *http.Request, q url.Values, u, p string) {
		r.Header.Set("Authorization", "Bearer "+bearer(u, secret, &past))
	}, "none"},
	{"bearer-no-exp", func(r *http.Request, q url.Values, u, p string) {
		r.Header.Set("Authorization", "Bearer "+bearer(u, secret, nil))
	}, "none"},
	{"bearer-wrong-key", func(r *http.Request, q url.Values, u, p string) {
		r.Header.Set("Authorization", "Bearer "+bearer(u, "other-secret", &future))
	}, "none"},
	{"no-credentials", func(r *http.Request, q url.Values, u, p string) {}, "none"},
}

// ---- statement catalogue

var statements = []string{
	`SELECT v FROM cpu`, `SELECT v FROM db2.autogen.cpu`, `SELECT v INTO cpu2 FROM cpu`, `SELECT v INTO db2.autogen.cpu2 FROM cpu`, `SELECT v FROM (SELECT v FROM db2.autogen.cpu)`,
	`SHOW DATABASES`, `SHOW MEASUREMENTS`, `SHOW MEASUREMENTS ON db2`, `SHOW SERIES`, `SHOW SERIES ON db2`, `SHOW TAG KEYS`, `SHOW TAG VALUES WITH KEY = host`, `SHOW FIELD KEYS`,
	`SHOW RETENTION POLICIES ON db1`, `SHOW USERS`, `SHOW GRANTS FOR plain`, `SHOW QUERIES`, `SHOW SHARDS`, `SHOW SHARD GROUPS`, `SHOW STATS`, `SHOW DIAGNOSTICS`, `SHOW SUBSCRIPTIONS`, `SHOW CONTINUOUS QUERIES`,
	`SHOW SERIES CARDINALITY`, `SHOW MEASUREMENT CARDINALITY ON db2`,
	`CREATE DATABASE db3`, `DROP DATABASE db2`, `CREATE USER eve WITH PASSWORD 'x'`, `CREATE USER root2 WITH PASSWORD 'x' WITH ALL PRIVILEGES`, `DROP USER plain`,
	`GRANT ALL ON db2 TO plain`, `GRANT ALL PRIVILEGES TO plain`, `REVOKE ALL ON db1 FROM plain`, `SET PASSWORD FOR plain = 'y'`,
	`CREATE RETENTION POLICY rp ON db1 DURATION 1h REPLICATION 1`, `ALTER RETENTION POLICY autogen ON db1 DURATION 2h`, `DROP RETENTION POLICY autogen ON db1`,
	`CREATE CONTINUOUS QUERY cq ON db1 BEGIN SELECT count(v) INTO c FROM cpu GROUP BY time(1h) END`, `DROP CONTINUOUS QUERY cq ON db2`,
	`DROP MEASUREMENT cpu`, `DROP SERIES FROM cpu`, `DELETE FROM cpu`, `DROP SHARD 1`, `KILL QUERY 1`,
	`CREATE SUBSCRIPTION s ON db1.autogen DESTINATIONS ALL 'udp://h:1'`, `DROP SUBSCRIPTION s ON db1.autogen`,
	`EXPLAIN SELECT v FROM cpu`, `EXPLAIN ANALYZE SELECT v FROM db2.autogen.cpu`,
}

// model: may the user run this request?
func holds(u userSpec, db string, p influxql.Privilege) bool {
	var have influxql.Privilege
	switch db {
	case "db1":
		have = u.db1
	case "db2":
		have = u.db2
	default:
		return false
	}
	if p == influxql.NoPrivileges {
		return true
	}
	return have == influxql.AllPrivileges || have == p
}

func modelAllows(u *userSpec, usersExist bool, q *influxql.Query, defaultDB string) (bool, string) {
	if !usersExist {
		if len(q.Statements) == 1 {
			if cu, ok := q.Statements[0].(*influxql.CreateUserStatement); ok && cu.Admin {
				return true, "bootstrap"
			}
		}
		if len(q.Statements) > 1 {
			if cu, ok := q.Statements[0].(*influxql.CreateUserStatement); ok && cu.Admin {
				return false, "bootstrap-with-trailing-statements"
			}
		}
		return false, "no-users"
	}
	if u == nil {
		return false, "unauthenticated"
	}
	if u.admin {
		return true, "admin"
	}
	for _, st := range q.Statements {
		privs, err := st.RequiredPrivileges()
		if err != nil {
			return false, "privileges-error"
		}
		for _, p := range privs {
			if p.Admin {
				return false, "needs-admin"
			}
			db := p.Name
			if db == "" {
				db = defaultDB
			}
			if !holds(*u, db, p.Privilege) {
				return false, "missing-grant"
			}
		}
	}
	return true, "granted"
}

func (e *env) do(endpoint, qtext, db string, car carrier, user, pw string) (status int, executed []string, writes int) {
	e.rec.mu.Lock()
	e.rec.executed, e.rec.writes = nil, 0
	e.rec.mu.Unlock()
	q := url.Values{}
	q.Set("db", db)
	var req *http.Request
	if endpoint == "query" {
		q.Set("q", qtext)
		req = httptest.NewRequest("POST", "/query", nil)
	} else {
		req = httptest.NewRequest("POST", "/write", strings.NewReader("cpu v=1 1\n"))
	}
	car.apply(req, q, user, pw)
	req.URL.RawQuery = q.Encode()
	w := httptest.NewRecorder()
	e.h.ServeHTTP(w, req)
	e.rec.mu.Lock()
	defer e.rec.mu.Unlock()
	return w.Code, append([]string(nil), e.rec.executed...), e.rec.writes
}

func TestCheck(t *testing.T) {
	if schedWorker(t) {
		return
	}
	meta.VSetBcryptCost(bcrypt.MinCost)
	c := report.Begin("C16", "model_checking")
	c.Rule = "(i) requests = statement catalogue (singly and in ordered pairs) x user populations x credential carriers x default database through the real httpd.Handler; (ii) states = (users, passwords, grants, credential cache) reached by BFS over changes installed into the real meta.Client and authentications; distinct = decision classes + states"
	c.Assumptions = []string{
		"what a statement needs is taken from influxql's RequiredPrivileges (a dependency, trusted); the decision procedure (admin short-cut, default-database substitution, ALL covers READ/WRITE, every statement of a request, bootstrap rule) is modelled independently",
		"a metadata change 'reaches the node' by the same assignment + updateAuthCache the client's polling loop performs; bcrypt at minimum cost",
		"(iii) an Authenticate overlapping the arrival of a change: 2 threads over the real meta.Client, every sync operation of services/meta a scheduling point, all schedules (no bound), cold and warm cache",
	}
	if *replayFile != "" {
		t.Skip("replay: the request is described in the replay file")
	}
	partRequests(t, c)
	partHistories(t, c)
	partSchedules(t, c)
	report.ExitCode = c.Finish()
}

func partRequests(t *testing.T, c *report.Check) {
	grants := []influxql.Privilege{influxql.NoPrivileges, influxql.ReadPrivilege, influxql.WritePrivilege, influxql.AllPrivileges}
	type population struct {
		name  string
		users []userSpec
	}
	pops := []population{{"no users at all", nil}}
	for _, g1 := range grants {
		for _, g2 := range []influxql.Privilege{influxql.NoPrivileges, influxql.AllPrivileges} {
			pops = append(pops, population{fmt.Sprintf("admin root + plain(db1=%s, db2=%s)", g1, g2), []userSpec{{"root", true, true, 0, 0}, {"plain", true, false, g1, g2}}})
		}
	}
	pops = append(pops, population{"only a non-admin user exists", []userSpec{{"plain", true, false, influxql.AllPrivileges, influxql.NoPrivileges}}})
	type who struct {
		name, user, pw string
	}
	whos := []who{{"root", "root", "pw-root"}, {"plain", "plain", "pw-plain"}, {"plain-wrong-password", "plain", "nope"}, {"unknown-user", "ghost", "pw-ghost"}, {"root-empty-password", "root", ""}}
	var queries []string
	queries = append(queries, statements...)
	pairs := statements
	if !c.Thorough() {
		pairs = []string{`SELECT v FROM cpu`, `SELECT v FROM db2.autogen.cpu`, `SHOW USERS`, `CREATE USER root2 WITH PASSWORD 'x' WITH ALL PRIVILEGES`, `DROP DATABASE db2`, `SELECT v INTO cpu2 FROM cpu`}
	}
	for _, a := range pairs {
		for _, b := range pairs {
			queries = append(queries, a+"; "+b)
		}
	}
	distinct := map[string]bool{}
	var evals int64
	var mu sync.Mutex
	type job struct {
		pop population
	}
	var wg sync.WaitGroup
	sem := make(chan struct{}, 16)
	for _, pop := range pops {
		pop := pop
		wg.Add(1)
		sem <- struct{}{}
		go func() {
			defer wg.Done()
			defer func() { <-sem }()
			e := newEnv(buildData(pop.users))
			usersExist := len(pop.users) > 0
			adminExists := false
			for _, u := range pop.users {
				if u.admin {
					adminExists = true
				}
			}
			for _, wh := range whos {
				for _, car := range carriers {
					// who does this request authenticate as, by the rules?
					var authed *userSpec
					for i := range pop.users {
						u := &pop.users[i]
						if u.name != wh.user {
							continue
						}
						if car.kind == "token-ok" || (car.kind == "password" && wh.pw == "pw-"+u.name) {
							authed = u
						}
					}
					for _, db := range []string{"db1", "db2"} {
						// write endpoint
						{
							status, _, writes := e.do("write", "", db, car, wh.user, wh.pw)
							allowed := authed != nil && (holds(*authed, db, influxql.WritePrivilege) || authed.admin)
							if usersExist && !adminExists {
								allowed = false // the handler does not authenticate until an admin exists: nobody is authenticated, the write is refused
							}
							mu.Lock()
							evals++
							distinct[fmt.Sprintf("write:%v:%d", allowed, status/100)] = true
							mu.Unlock()
							if (writes > 0) != allowed {
								// with authentication on but no admin user, the handler skips authentication: the write is then refused for lack of a user
								c.Violation(fmt.Sprintf("write:executed=%v:model=%v", writes > 0, allowed),
									fmt.Sprintf("a write to %s as %s via %s (population: %s) executed=%v (HTTP %d), the grants say allowed=%v", db, wh.name, car.name, pop.name, writes > 0, status, allowed),
									map[string]any{"endpoint": "write", "db": db, "who": wh.name, "carrier": car.name, "population": pop.name})
							}
						}
						for _, qt := range queries {
							q, err := influxql.ParseQuery(qt)
							if err != nil {
								panic(qt + ": " + err.Error())
							}
							want, why := modelAllows(authed, usersExist, q, db)
							if usersExist && !adminExists {
								// the handler does not authenticate until an admin exists; nobody is authenticated then
								want, why = modelAllows(nil, usersExist, q, db)
							}
							status, executed, _ := e.do("query", qt, db, car, wh.user, wh.pw)
							ran := len(executed) > 0
							mu.Lock()
							evals++
							distinct[fmt.Sprintf("query:%s:%v:%d", why, ran, status/100)] = true
							mu.Unlock()
							if ran == want {
								continue
							}
							if why == "bootstrap-with-trailing-statements" && ran {
								c.Violation("bootstrap-request-runs-trailing-statements",
									fmt.Sprintf("with no users, the request %q is authorised as a whole: %v ran although only the creation of the first administrator is allowed", qt, executed),
									map[string]any{"query": qt})
								continue
							}
							kind := "ran-without-authorisation"
							if want {
								kind = "refused-although-authorised"
							}
							c.Violation(fmt.Sprintf("query:%s:%s", kind, why),
								fmt.Sprintf("request %q (db=%s) as %s via %s (population: %s): executed %v (HTTP %d), the authorisation model says allowed=%v (%s)", qt, db, wh.name, car.name, pop.name, executed, status, want, why),
								map[string]any{"query": qt, "db": db, "who": wh.name, "carrier": car.name, "population": pop.name})
						}
					}
				}
			}
		}()
	}
	wg.Wait()
	c.AddCount("requests through httpd.Handler", evals, distinct, true, map[string]any{"statements": len(statements), "queries_incl_pairs": len(queries), "populations": len(pops), "carriers": len(carriers)},
		"SELECT v FROM db2.autogen.cpu as plain(db1=READ) via bearer-valid", "CREATE USER root2 ... WITH ALL PRIVILEGES; DROP DATABASE db2 with no users")
}

// ---- (ii) histories

type hop struct {
	name string
	do   func(d *meta.Data)
}

var pws = []string{"pw1", "pw2"}

func partHistories(t *testing.T, c *report.Check) {
	ops := []hop{
		{"CREATE USER u pw1", func(d *meta.Data) { d.CreateUser("u", hashOf("pw1"), false) }},
		{"CREATE USER u pw2 admin", func(d *meta.Data) { d.CreateUser("u", hashOf("pw2"), true) }},
		{"SET PASSWORD u pw2", func(d *meta.Data) { d.UpdateUser("u", hashOf("pw2")) }},
		{"SET PASSWORD u pw1", func(d *meta.Data) { d.UpdateUser("u", hashOf("pw1")) }},
		{"GRANT READ ON db1 TO u", func(d *meta.Data) { d.SetPrivilege("u", "db1", influxql.ReadPrivilege) }},
		{"REVOKE ALL ON db1 FROM u", func(d *meta.Data) { d.SetPrivilege("u", "db1", influxql.NoPrivileges) }},
		{"GRANT ALL PRIVILEGES TO u", func(d *meta.Data) { d.SetAdminPrivilege("u", true) }},
		{"REVOKE ALL PRIVILEGES FROM u", func(d *meta.Data) { d.SetAdminPrivilege("u", false) }},
		{"DROP USER u", func(d *meta.Data) { d.DropUser("u") }},
		{"authenticate u/pw1 (and query db1)", nil},
		{"authenticate u/pw2 (and query db1)", nil},
	}
	sel, _ := influxql.ParseQuery("SELECT v FROM cpu")
	adm, _ := influxql.ParseQuery("SHOW USERS")
	run := func(seq []int) (res explore.StepResult) {
		d := &meta.Data{}
		d.CreateDatabase("db1")
		d.CreateUser("root", hashOf("pw-root"), true) // an admin exists, so authentication is enforced
		e := newEnv(d.Clone())
		check := func() (string, string) {
			// every password, against what the metadata that reached the node says
			cur := d.User("u")
			for _, pw := range append(pws, "wrong") {
				u, err := e.client.Authenticate("u", pw)
				want := cur != nil && bcrypt.CompareHashAndPassword([]byte(cur.(*meta.UserInfo).Hash), []byte(pw)) == nil
				if (err == nil) != want {
					return fmt.Sprintf("Authenticate(u, %s) succeeds=%v, the current metadata says %v", pw, err == nil, want), fmt.Sprintf("authenticate:got=%v", err == nil)
				}
				if err != nil {
					continue
				}
				ui := cur.(*meta.UserInfo)
				_, qerr := meta.NewQueryAuthorizer(e.client).AuthorizeQuery(u, sel, "db1")
				wantRead := ui.Admin || ui.Privileges["db1"] == influxql.ReadPrivilege || ui.Privileges["db1"] == influxql.AllPrivileges
				if (qerr == nil) != wantRead {
					return fmt.Sprintf("after authenticating with %s, SELECT on db1 is allowed=%v, the current grants say %v", pw, qerr == nil, wantRead), fmt.Sprintf("stale-grant:select:got=%v", qerr == nil)
				}
				_, aerr := meta.NewQueryAuthorizer(e.client).AuthorizeQuery(u, adm, "db1")
				if (aerr == nil) != ui.Admin {
					return fmt.Sprintf("after authenticating with %s, SHOW USERS is allowed=%v, the admin flag is %v", pw, aerr == nil, ui.Admin), fmt.Sprintf("stale-grant:admin:got=%v", aerr == nil)
				}
			}
			return "", ""
		}
		for i, oi := range seq {
			o := ops[oi]
			if o.do != nil {
				o.do(d)
				meta.VClientInstall(e.client, d.Clone()) // the change reaches the node
			} else {
				pw := "pw1"
				if strings.Contains(o.name, "pw2") {
					pw = "pw2"
				}
				if u, err := e.client.Authenticate("u", pw); err == nil {
					meta.NewQueryAuthorizer(e.client).AuthorizeQuery(u, sel, "db1")
				}
			}
			if i == len(seq)-1 {
				if v, s := check(); v != "" {
					res.Violation, res.Sig = v, s
					return
				}
			}
		}
		// state: user record + which passwords are cached (observable only through behaviour: use the op history of authentications since the last hash change)
		var st []string
		if u := d.User("u"); u != nil {
			ui := u.(*meta.UserInfo)
			st = append(st, fmt.Sprintf("u admin=%v db1=%v hash=%s", ui.Admin, ui.Privileges["db1"], pwOf(ui.Hash)))
		}
		cached := map[string]bool{}
		for i, oi := range seq {
			_ = i
			o := ops[oi]
			switch {
			case o.do == nil:
				cached[o.name] = true
			case strings.HasPrefix(o.name, "SET PASSWORD") || strings.HasPrefix(o.name, "DROP USER") || strings.HasPrefix(o.name, "CREATE USER"):
				cached = map[string]bool{}
			}
		}
		var cs []string
		for k := range cached {
			cs = append(cs, k)
		}
		sort.Strings(cs)
		res.State = strings.Join(st, ";") + "|cache:" + strings.Join(cs, ",")
		res.Obs = "ok"
		return res
	}
	depth := c.Pick(5, 6)
	r := explore.BFS(explore.BFSConfig{Ops: len(ops), Depth: depth, Workers: 16, OpName: func(i int) string { return ops[i].name }}, run)
	c.AddBFS("user/grant/password histories with a warm credential cache", r, map[string]any{"part": "histories"})
}

func pwOf(hash string) string {
	hashMu.Lock()
	defer hashMu.Unlock()
	for pw, h := range hashes {
		if h == hash {
			return pw
		}
	}
	return "?"
}

func TestMain(m *testing.M) { flag.Parse(); report.Main(m.Run) }
