package c16

// Part (iii): an Authenticate overlapping the arrival of a password change.
// Two harness threads over the real meta.Client under the controlled scheduler
// (every sync operation of services/meta is a scheduling point, all schedules):
//   A: Authenticate(u, old password)        (in flight while the change arrives)
//   B: the change reaches the node (cacheData assignment + updateAuthCache, as
//      the polling loop does), then a later unrelated change reaches it too
// Oracle, after both have finished and the change has reached the node: the old
// password is rejected - also through the credential cache - and the new one works.

import (
	"fmt"
	"strings"
	"testing"
	"testing/synctest"

	"github.com/influxdata/influxdb/pkg/vsync"
	"github.com/influxdata/influxdb/services/meta"
	"golang.org/x/crypto/bcrypt"

	"verif/mc/explore"
	"verif/mc/report"
)

type schedScenario struct {
	name   string
	change func(d *meta.Data)
	newPW  string // "" = the user is gone afterwards
}

var schedScenarios = []schedScenario{
	{"auth: Authenticate(old) x SET PASSWORD arrives", func(d *meta.Data) { d.UpdateUser("u", hashOf("pw2")) }, "pw2"},
	{"auth: Authenticate(old) x DROP+CREATE USER arrives", func(d *meta.Data) { d.DropUser("u"); d.CreateUser("u", hashOf("pw2"), false) }, "pw2"},
	{"auth: Authenticate(old) x DROP USER arrives", func(d *meta.Data) { d.DropUser("u") }, ""},
}

func findSched(name string) (schedScenario, bool) {
	for _, s := range schedScenarios {
		if s.name == name {
			return s, true
		}
	}
	return schedScenario{}, false
}

func schedBody(t *testing.T, sc schedScenario, warm bool) func(tp *explore.Tape) explore.Outcome {
	return func(tp *explore.Tape) (out explore.Outcome) {
		meta.VSetBcryptCost(bcrypt.MinCost)
		var res vsync.Result
		var aErr error
		synctest.Test(t, func(t *testing.T) {
			d := &meta.Data{}
			d.CreateDatabase("db1")
			d.CreateUser("root", hashOf("pw-root"), true)
			d.CreateUser("u", hashOf("pw1"), false)
			e := newEnv(d.Clone())
			if warm {
				e.client.Authenticate("u", "pw1") // the credential cache already holds the old password
			}
			threads := []func(){
				func() { _, aErr = e.client.Authenticate("u", "pw1") },
				func() {
					sc.change(d)
					meta.VClientInstall(e.client, d.Clone())
					d.CreateDatabase("db2") // a later, unrelated change
					meta.VClientInstall(e.client, d.Clone())
				},
			}
			ch := func(n int, label string, preempt bool) int { return tp.Choose(n, label) }
			res = vsync.Run(ch, vsync.Config{Focus: []string{"github.com/influxdata/influxdb/services/meta"}}, threads...)
			if res.Deadlock || res.Livelock {
				out.Violation, out.Sig = "deadlock: "+strings.Join(res.Stuck, "; "), "deadlock:auth"
				explore.Abort(tp, out)
			}
			// both have finished: the change has reached the node
			for round := 0; round < 2 && out.Violation == ""; round++ {
				if _, err := e.client.Authenticate("u", "pw1"); err == nil {
					out.Violation = fmt.Sprintf("the old password is accepted after the change reached the node (in-flight Authenticate returned err=%v, attempt %d)", aErr, round)
					out.Sig = "stale-password-after-overlap"
				}
				if sc.newPW != "" && out.Violation == "" {
					if _, err := e.client.Authenticate("u", sc.newPW); err != nil {
						out.Violation = "the new password is rejected after the change reached the node: " + err.Error()
						out.Sig = "new-password-rejected-after-overlap"
					}
				}
			}
		})
		out.Steps = res.Steps
		if out.Violation == "" {
			out.Obs = fmt.Sprintf("in-flight-accepted=%v", aErr == nil)
		}
		return out
	}
}

func schedWorker(t *testing.T) bool {
	name := explore.WorkerScenario()
	if name == "" {
		return false
	}
	warm := strings.HasSuffix(name, " (warm cache)")
	sc, ok := findSched(strings.TrimSuffix(name, " (warm cache)"))
	if !ok {
		t.Fatalf("unknown scenario %q", name)
	}
	explore.WorkerLoop(schedBody(t, sc, warm))
	return true
}

func partSchedules(t *testing.T, c *report.Check) {
	for _, sc := range schedScenarios {
		for _, warm := range []bool{false, true} {
			name := sc.name
			if warm {
				name += " (warm cache)"
			}
			r := explore.ExploreProcs(explore.ProcConfig{Scenario: name, Bound: -1, Procs: 4, Budget: 50, MaxExecs: 200000})
			c.AddExplore(name+" (all schedules)", r, map[string]any{"part": "schedules", "scenario": name})
		}
	}
}
