// C13: storage encodings round-trip exactly; torn logs replay their prefix.
//
// Bounded-exhaustive enumeration on the real tsm1 encoders/decoders:
//  (i)  per type every sequence of length <= L over a boundary alphabet of
//       values x a boundary alphabet of timestamp deltas, through the iterator
//       encoder (Values.Encode) and the batch encoder (Encode*ArrayBlock), each
//       decoded by both decoders (DecodeBlock, Decode*ArrayBlock): bit-identical;
//  (ii) run families (constant / two-valued / arithmetic / alternating) at every
//       length 1..N (crosses RLE, the simple8b selector boundaries, 1000 points);
//  (iii) every sequence of <= 3 WAL entries, the encoded segment cut at every
//       byte offset: the reader yields exactly the entries wholly before the cut.
package c13

import (
	"bytes"
	"flag"
	"fmt"
	"io"
	"math"
	"reflect"
	"strings"
	"sync"
	"testing"

	"github.com/golang/snappy"
	"github.com/influxdata/influxdb/tsdb"
	"github.com/influxdata/influxdb/tsdb/engine/tsm1"

	"verif/mc/report"
)

var replayFile = flag.String("replay", "", "unused")

type res struct {
	mu       sync.Mutex
	evals    int64
	distinct map[string]bool
	viol     map[string][2]string
}

func (r *res) bad(sig, what, input string) {
	r.mu.Lock()
	defer r.mu.Unlock()
	if old, ok := r.viol[sig]; !ok || len(input) < len(old[1]) {
		r.viol[sig] = [2]string{what, input}
	}
}

var tsDeltas = []int64{0, 1, 10, 1000, 1000000000, -1, 1 << 60, (1 << 60) - 1, math.MaxInt64}
var tsStarts = []int64{0, math.MinInt64, 1500000000000000000}

var ints = []int64{0, 1, -1, 2, 1 << 59, (1 << 60) - 1, 1 << 60, -(1 << 60), math.MaxInt64, math.MinInt64, 1 << 30}
var floats = []float64{0, math.Copysign(0, -1), 1, -1, 1.5, math.SmallestNonzeroFloat64, math.MaxFloat64, -math.MaxFloat64, 3.141592653589793, 1e-300, float64(1 << 53)}
var strs = []string{"", "a", "ab", strings.Repeat("x", 65536), "\x00", "é", strings.Repeat("ab", 40)}
var bools = []bool{false, true}

// encodeDecode runs one block through both encoders and both decoders.
func encodeDecode(r *res, typ string, ts []int64, vals []tsm1.Value, desc func() string) {
	r.evals++
	defer func() {
		if x := recover(); x != nil {
			r.bad("panic:"+typ, fmt.Sprintf("encoder/decoder panicked: %v", x), desc())
		}
	}()
	// iterator encoder
	b1, err := tsm1.Values(vals).Encode(nil)
	if err != nil {
		r.bad("encode-error:"+typ, "Values.Encode failed: "+err.Error(), desc())
		return
	}
	// batch encoder
	var b2 []byte
	switch typ {
	case "float":
		a := tsdb.NewFloatArrayLen(len(vals))
		for i, v := range vals {
			a.Timestamps[i], a.Values[i] = ts[i], v.Value().(float64)
		}
		b2, err = tsm1.EncodeFloatArrayBlock(a, nil)
	case "integer":
		a := tsdb.NewIntegerArrayLen(len(vals))
		for i, v := range vals {
			a.Timestamps[i], a.Values[i] = ts[i], v.Value().(int64)
		}
		b2, err = tsm1.EncodeIntegerArrayBlock(a, nil)
	case "unsigned":
		a := tsdb.NewUnsignedArrayLen(len(vals))
		for i, v := range vals {
			a.Timestamps[i], a.Values[i] = ts[i], v.Value().(uint64)
		}
		b2, err = tsm1.EncodeUnsignedArrayBlock(a, nil)
	case "string":
		a := tsdb.NewStringArrayLen(len(vals))
		for i, v := range vals {
			a.Timestamps[i], a.Values[i] = ts[i], v.Value().(string)
		}
		b2, err = tsm1.EncodeStringArrayBlock(a, nil)
	case "boolean":
		a := tsdb.NewBooleanArrayLen(len(vals))
		for i, v := range vals {
			a.Timestamps[i], a.Values[i] = ts[i], v.Value().(bool)
		}
		b2, err = tsm1.EncodeBooleanArrayBlock(a, nil)
	}
	if err != nil {
		r.bad("encode-error:"+typ, "batch encoder failed: "+err.Error(), desc())
		return
	}
	for bi, blk := range [][]byte{b1, b2} {
		enc := []string{"iterator-encoder", "batch-encoder"}[bi]
		// iterator decoder
		got, err := tsm1.DecodeBlock(blk, nil)
		if err != nil {
			r.bad("decode-error:"+typ, enc+" output does not decode with DecodeBlock: "+err.Error(), desc())
			return
		}
		if len(got) != len(vals) {
			r.bad("roundtrip:"+typ, fmt.Sprintf("%s + DecodeBlock: %d values in, %d out", enc, len(vals), len(got)), desc())
			return
		}
		for i := range vals {
			if got[i].UnixNano() != ts[i] || !sameVal(got[i].Value(), vals[i].Value()) {
				r.bad("roundtrip:"+typ, fmt.Sprintf("%s + DecodeBlock: element %d is (%d,%v), expected (%d,%v)", enc, i, got[i].UnixNano(), got[i].Value(), ts[i], vals[i].Value()), desc())
				return
			}
		}
		// array decoder
		var ats []int64
		var avs []interface{}
		switch typ {
		case "float":
			a := &tsdb.FloatArray{}
			err = tsm1.DecodeFloatArrayBlock(blk, a)
			ats = a.Timestamps
			for _, v := range a.Values {
				avs = append(avs, v)
			}
		case "integer":
			a := &tsdb.IntegerArray{}
			err = tsm1.DecodeIntegerArrayBlock(blk, a)
			ats = a.Timestamps
			for _, v := range a.Values {
				avs = append(avs, v)
			}
		case "unsigned":
			a := &tsdb.UnsignedArray{}
			err = tsm1.DecodeUnsignedArrayBlock(blk, a)
			ats = a.Timestamps
			for _, v := range a.Values {
				avs = append(avs, v)
			}
		case "string":
			a := &tsdb.StringArray{}
			err = tsm1.DecodeStringArrayBlock(blk, a)
			ats = a.Timestamps
			for _, v := range a.Values {
				avs = append(avs, v)
			}
		case "boolean":
			a := &tsdb.BooleanArray{}
			err = tsm1.DecodeBooleanArrayBlock(blk, a)
			ats = a.Timestamps
			for _, v := range a.Values {
				avs = append(avs, v)
			}
		}
		if err != nil {
			r.bad("decode-error:"+typ, enc+" output does not decode with the array decoder: "+err.Error(), desc())
			return
		}
		if len(ats) != len(vals) || len(avs) != len(vals) {
			r.bad("roundtrip:"+typ, fmt.Sprintf("%s + array decoder: %d values in, %d/%d out", enc, len(vals), len(ats), len(avs)), desc())
			return
		}
		for i := range vals {
			if ats[i] != ts[i] || !sameVal(avs[i], vals[i].Value()) {
				r.bad("roundtrip:"+typ, fmt.Sprintf("%s + array decoder: element %d is (%d,%v), expected (%d,%v)", enc, i, ats[i], avs[i], ts[i], vals[i].Value()), desc())
				return
			}
		}
	}
	r.mu.Lock()
	r.distinct[fmt.Sprintf("%s:tsenc=%d:valenc=%d", typ, b1[1]>>4, encByte(b1))] = true
	r.mu.Unlock()
}

func encByte(b []byte) int {
	// first byte after the type byte and the uvarint length of the timestamp block holds the
	// timestamp encoding; the value block's first byte holds the value encoding
	if len(b) < 3 {
		return -1
	}
	l, n := uvarint(b[1:])
	off := 1 + n + int(l)
	if off >= len(b) {
		return -1
	}
	return int(b[off] >> 4)
}

func uvarint(b []byte) (uint64, int) {
	var x uint64
	var s uint
	for i, c := range b {
		if c < 0x80 {
			return x | uint64(c)<<s, i + 1
		}
		x |= uint64(c&0x7f) << s
		s += 7
	}
	return 0, 0
}

func sameVal(a, b interface{}) bool {
	if fa, ok := a.(float64); ok {
		fb, ok := b.(float64)
		return ok && math.Float64bits(fa) == math.Float64bits(fb)
	}
	return reflect.DeepEqual(a, b)
}

func mkTimes(start int64, deltas []int64) []int64 {
	ts := make([]int64, len(deltas))
	cur := start
	for i, d := range deltas {
		if i > 0 {
			cur += d // wrap-around is part of the alphabet
		}
		ts[i] = cur
	}
	return ts
}

func enumSeqs(r *res, L int) {
	type job struct {
		typ   string
		first int
	}
	var wg sync.WaitGroup
	jobs := make(chan job, 64)
	nvals := map[string]int{"float": len(floats), "integer": len(ints), "unsigned": len(ints), "string": len(strs), "boolean": len(bools)}
	mk := func(typ string, t int64, i int) tsm1.Value {
		switch typ {
		case "float":
			return tsm1.NewFloatValue(t, floats[i])
		case "integer":
			return tsm1.NewIntegerValue(t, ints[i])
		case "unsigned":
			return tsm1.NewUnsignedValue(t, uint64(ints[i]))
		case "string":
			return tsm1.NewStringValue(t, strs[i])
		}
		return tsm1.NewBooleanValue(t, bools[i])
	}
	for w := 0; w < 16; w++ {
		wg.Add(1)
		go func() {
			defer wg.Done()
			for j := range jobs {
				n := nvals[j.typ]
				maxL := L
				if j.typ == "string" {
					maxL = L - 1 // 64 KB strings: keep the family affordable
				}
				idx := make([]int, 0, maxL)
				var rec func()
				rec = func() {
					if len(idx) > 0 {
						// value sequence fixed; timestamps: every start x one delta pattern per delta (constant delta) plus a mixed pattern
						for _, st := range tsStarts {
							for _, d := range tsDeltas {
								ds := make([]int64, len(idx))
								for k := range ds {
									ds[k] = d
								}
								ts := mkTimes(st, ds)
								vals := make([]tsm1.Value, len(idx))
								for k, vi := range idx {
									vals[k] = mk(j.typ, ts[k], vi)
								}
								encodeDecode(r, j.typ, ts, vals, func() string { return fmt.Sprintf("%s values#%v start=%d delta=%d", j.typ, idx, st, d) })
							}
						}
					}
					if len(idx) == maxL {
						return
					}
					for i := 0; i < n; i++ {
						idx = append(idx, i)
						rec()
						idx = idx[:len(idx)-1]
					}
				}
				idx = append(idx, j.first)
				rec()
			}
		}()
	}
	for typ, n := range nvals {
		for i := 0; i < n; i++ {
			jobs <- job{typ, i}
		}
	}
	close(jobs)
	wg.Wait()
	// timestamp-delta sequences (value fixed): every delta sequence of length <= L
	var wg2 sync.WaitGroup
	for _, st := range tsStarts {
		for _, d0 := range tsDeltas {
			wg2.Add(1)
			go func(st, d0 int64) {
				defer wg2.Done()
				ds := []int64{0, d0}
				var rec func()
				rec = func() {
					ts := mkTimes(st, ds)
					vals := make([]tsm1.Value, len(ts))
					for k := range ts {
						vals[k] = tsm1.NewIntegerValue(ts[k], int64(k))
					}
					encodeDecode(r, "integer", ts, vals, func() string { return fmt.Sprintf("timestamps start=%d deltas=%v", st, ds) })
					if len(ds) == L+1 {
						return
					}
					for _, d := range tsDeltas {
						ds = append(ds, d)
						rec()
						ds = ds[:len(ds)-1]
					}
				}
				rec()
			}(st, d0)
		}
	}
	wg2.Wait()
}

func enumRuns(r *res, maxN int) {
	var wg sync.WaitGroup
	sem := make(chan struct{}, 16)
	for n := 1; n <= maxN; n++ {
		wg.Add(1)
		sem <- struct{}{}
		go func(n int) {
			defer wg.Done()
			defer func() { <-sem }()
			type fam struct {
				name string
				ts   func(i int) int64
			}
			tsf := []fam{
				{"regular-10s", func(i int) int64 { return 1500000000000000000 + int64(i)*10000000000 }},
				{"regular-1ns", func(i int) int64 { return int64(i) }},
				{"one-jitter", func(i int) int64 {
					if i == n/2 {
						return int64(i)*1000 + 1
					}
					return int64(i) * 1000
				}},
				{"big-last-delta", func(i int) int64 {
					if i == n-1 && n > 1 {
						return int64(i)*1000 + (1 << 60)
					}
					return int64(i) * 1000
				}},
			}
			for _, tf := range tsf {
				ts := make([]int64, n)
				for i := range ts {
					ts[i] = tf.ts(i)
				}
				mkv := func(typ string, f func(i int) interface{}) {
					vals := make([]tsm1.Value, n)
					for i := range vals {
						vals[i] = tsm1.NewValue(ts[i], f(i))
					}
					encodeDecode(r, typ, ts, vals, func() string { return fmt.Sprintf("run family n=%d ts=%s type=%s", n, tf.name, typ) })
				}
				mkv("integer", func(i int) interface{} { return int64(7) })
				mkv("integer", func(i int) interface{} { return int64(i) * 3 })
				mkv("integer", func(i int) interface{} { return int64(i%2) * (1 << 59) })
				mkv("integer", func(i int) interface{} {
					if i == n-1 {
						return int64(1 << 60)
					}
					return int64(i)
				})
				mkv("unsigned", func(i int) interface{} { return uint64(i) << 3 })
				mkv("float", func(i int) interface{} { return 1.5 })
				mkv("float", func(i int) interface{} { return float64(i) * 0.1 })
				mkv("float", func(i int) interface{} { return math.Float64frombits(uint64(i) * 0x9e3779b97f4a7c15 &^ (0x7ff << 52)) })
				mkv("boolean", func(i int) interface{} { return i%3 == 0 })
				mkv("string", func(i int) interface{} { return fmt.Sprintf("v%d", i%5) })
			}
		}(n)
	}
	wg.Wait()
}

// ---- WAL

func walEntries() []tsm1.WALEntry {
	v := func(vals ...tsm1.Value) []tsm1.Value { return vals }
	return []tsm1.WALEntry{
		&tsm1.WriteWALEntry{Values: map[string][]tsm1.Value{"cpu,h=a#!~#f": v(tsm1.NewFloatValue(1, 1.5), tsm1.NewFloatValue(2, -0.0))}},
		&tsm1.WriteWALEntry{Values: map[string][]tsm1.Value{"cpu,h=a#!~#i": v(tsm1.NewIntegerValue(math.MinInt64, math.MaxInt64))}},
		&tsm1.WriteWALEntry{Values: map[string][]tsm1.Value{"cpu,h=a#!~#u": v(tsm1.NewUnsignedValue(3, math.MaxUint64))}},
		&tsm1.WriteWALEntry{Values: map[string][]tsm1.Value{"cpu,h=a#!~#s": v(tsm1.NewStringValue(4, ""), tsm1.NewStringValue(5, "héllo"))}},
		&tsm1.WriteWALEntry{Values: map[string][]tsm1.Value{"cpu,h=a#!~#b": v(tsm1.NewBooleanValue(6, true))}},
		&tsm1.WriteWALEntry{Values: map[string][]tsm1.Value{"a#!~#x": v(tsm1.NewFloatValue(7, 1)), "b#!~#y": v(tsm1.NewIntegerValue(8, 2), tsm1.NewIntegerValue(9, 3))}},
		&tsm1.DeleteWALEntry{Keys: [][]byte{[]byte("cpu,h=a#!~#f"), []byte("b#!~#y")}},
		&tsm1.DeleteRangeWALEntry{Keys: [][]byte{[]byte("cpu,h=a#!~#f")}, Min: math.MinInt64, Max: 5},
		&tsm1.DeleteRangeWALEntry{Keys: [][]byte{[]byte("a#!~#x"), []byte("b#!~#y")}, Min: 1, Max: math.MaxInt64},
	}
}

type nopCloser struct{ io.Writer }

func (nopCloser) Close() error { return nil }

func entryEqual(a, b tsm1.WALEntry) bool {
	if a.Type() != b.Type() {
		return false
	}
	if wa, ok := a.(*tsm1.WriteWALEntry); ok {
		// a multi-key entry encodes in map order: compare the decoded content
		return reflect.DeepEqual(wa.Values, b.(*tsm1.WriteWALEntry).Values)
	}
	x, _ := a.Encode(nil)
	y, _ := b.Encode(nil)
	return bytes.Equal(x, y)
}

func enumWAL(r *res, maxEntries int) {
	es := walEntries()
	var seqs [][]int
	var rec func(cur []int)
	rec = func(cur []int) {
		if len(cur) > 0 {
			seqs = append(seqs, append([]int(nil), cur...))
		}
		if len(cur) == maxEntries {
			return
		}
		for i := range es {
			rec(append(cur, i))
		}
	}
	rec(nil)
	var wg sync.WaitGroup
	ch := make(chan []int, 64)
	for w := 0; w < 16; w++ {
		wg.Add(1)
		go func() {
			defer wg.Done()
			for seq := range ch {
				var buf bytes.Buffer
				w := tsm1.NewWALSegmentWriter(nopCloser{&buf})
				var ends []int
				for _, i := range seq {
					b, err := es[i].Encode(nil)
					if err != nil {
						r.bad("wal-encode", "WAL entry does not encode: "+err.Error(), fmt.Sprint(seq))
						continue
					}
					if err := w.Write(es[i].Type(), snappy.Encode(nil, b)); err != nil {
						r.bad("wal-write", "segment write failed: "+err.Error(), fmt.Sprint(seq))
					}
					w.Flush()
					ends = append(ends, buf.Len())
				}
				full := buf.Bytes()
				for cut := 0; cut <= len(full); cut++ {
					want := 0
					for _, e := range ends {
						if e <= cut {
							want++
						}
					}
					func() {
						r.mu.Lock()
						r.evals++
						r.mu.Unlock()
						defer func() {
							if x := recover(); x != nil {
								r.bad("wal-reader-panic", fmt.Sprintf("WAL segment reader panicked on a segment cut at byte %d of %d: %v", cut, len(full), x), fmt.Sprintf("entries=%v cut=%d", seq, cut))
							}
						}()
						rd := tsm1.NewWALSegmentReader(io.NopCloser(bytes.NewReader(full[:cut])))
						got := 0
						var held []tsm1.WALEntry
						for rd.Next() {
							e, err := rd.Read()
							if err != nil {
								break
							}
							if got < len(seq) && !entryEqual(e, es[seq[got]]) {
								r.bad("wal-entry-changed", fmt.Sprintf("entry %d read back from the segment differs from what was written", got), fmt.Sprintf("entries=%v cut=%d", seq, cut))
							}
							held = append(held, e)
							got++
						}
						// entries handed out must stay what they were while the reader moves on
						for k, e := range held {
							if k < len(seq) && !entryEqual(e, es[seq[k]]) {
								r.bad("wal-entry-changed-later", fmt.Sprintf("entry %d changed after the reader went on to later bytes of the segment", k), fmt.Sprintf("entries=%v cut=%d", seq, cut))
							}
						}
						if got != want {
							r.bad(fmt.Sprintf("wal-torn-prefix:%+d", got-want), fmt.Sprintf("segment of %d bytes cut at %d holds %d complete entries, the reader returned %d", len(full), cut, want, got), fmt.Sprintf("entries=%v cut=%d", seq, cut))
						}
						r.mu.Lock()
						r.distinct[fmt.Sprintf("wal:complete=%d:clean=%v", want, cut == len(full) || contains(ends, cut) || cut == 0)] = true
						r.mu.Unlock()
					}()
				}
			}
		}()
	}
	for _, s := range seqs {
		ch <- s
	}
	close(ch)
	wg.Wait()
}

func contains(a []int, x int) bool {
	for _, v := range a {
		if v == x {
			return true
		}
	}
	return false
}

func TestCheck(t *testing.T) {
	c := report.Begin("C13", "exploration")
	c.Rule = "per type every value sequence of length <= L over a boundary alphabet x timestamp start/delta alphabet, run families at every length 1..N, and every WAL entry sequence <= 3 cut at every byte; each block through 2 encoders x 2 decoders; distinct = (type, timestamp encoding, value encoding) triples chosen by the encoder plus WAL cut classes"
	c.Assumptions = []string{
		"small-scope: value alphabets sit on the constants the encoders branch on (2^60 simple8b limit, RLE, zig-zag extremes, float bit patterns incl. -0, denormal, extremes (NaN/Inf are refused by parser and encoder alike), 64 KB string)",
		"timestamps may be unsorted/wrapping: the encoders must still round-trip what they are given",
	}
	r := &res{distinct: map[string]bool{}, viol: map[string][2]string{}}
	L := c.Pick(4, 5)
	enumSeqs(r, L)
	seqEvals := r.evals
	enumRuns(r, c.Pick(1100, 2100))
	runEvals := r.evals - seqEvals
	enumWAL(r, c.Pick(2, 3))
	walEvals := r.evals - seqEvals - runEvals
	for sig, v := range r.viol {
		c.Violation(sig, v[0], map[string]any{"input": v[1]})
	}
	c.AddCount("blocks+wal", r.evals, r.distinct, true, map[string]any{"value_sequences": seqEvals, "run_family_blocks": runEvals, "wal_cut_images": walEvals, "max_len": L},
		"integer values#[5 6] start=0 delta=1 (2^60-1 then 2^60: simple8b boundary)", "WAL entries [0 7] cut at every byte")
	report.ExitCode = c.Finish()
}

func TestMain(m *testing.M) { flag.Parse(); report.Main(m.Run) }
