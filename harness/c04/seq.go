package c04

import (
	"bytes"
	"fmt"
	"io"
	"os"
	"path/filepath"
	"sort"
	"strings"
	"time"

	"github.com/influxdata/influxdb/services/hh"

	"verif/mc/explore"
)

// ---- part (a): explicit-state search over queue operations vs a list model

const segSize = 64

var appendSizes = []int{1, 24, 39, 40, 56, 57}

type seqOp struct {
	name string
	kind int // 0 append, 1 peek, 2 consume, 3 setmax, 4 reopen, 5 purge-noop, 6 age+purge
	arg  int
}

func seqOps() []seqOp {
	var ops []seqOp
	for _, s := range appendSizes {
		ops = append(ops, seqOp{fmt.Sprintf("Append(%dB)", s), 0, s})
	}
	ops = append(ops, seqOp{"Peek", 1, 0}, seqOp{"Consume", 2, 0},
		seqOp{"SetMaxSegmentSize(32)", 3, 32}, seqOp{"SetMaxSegmentSize(128)", 3, 128},
		seqOp{"12 x Append(56B) (12 segments)", 7, 12}, seqOp{"Close+Open", 4, 0}, seqOp{"PurgeOlderThan(now-1h)", 5, 0}, seqOp{"age-files-2h+PurgeOlderThan(now-1h)", 6, 0})
	return ops
}

func blockBody(id, size int) []byte {
	b := bytes.Repeat([]byte{byte('a' + id%26)}, size)
	copy(b, fmt.Sprintf("%d:", id))
	return b
}

// peek is what the real consumer (NodeProcessor.SendWrite/run) does to find
// the next block: an EOF from Current is answered by Advance (which trims an
// exhausted head segment) and another attempt.
func peek(q *hh.VQueue, maxTries int) ([]byte, error) {
	b, err := q.Current()
	for i := 0; err == io.EOF && i < maxTries; i++ {
		if aerr := q.Advance(); aerr != nil {
			return nil, aerr
		}
		b, err = q.Current()
	}
	return b, err
}

func copyDir(src, dst string) error {
	os.MkdirAll(dst, 0o700)
	es, err := os.ReadDir(src)
	if err != nil {
		return err
	}
	for _, e := range es {
		b, err := os.ReadFile(filepath.Join(src, e.Name()))
		if err != nil {
			return err
		}
		if err := os.WriteFile(filepath.Join(dst, e.Name()), b, 0o600); err != nil {
			return err
		}
	}
	return nil
}

// drainCopy opens a copy of the queue directory and drains it.
func drainCopy(dir string, maxSeg int64) (blocks [][]byte, err error) {
	tmp, err := os.MkdirTemp("/dev/shm", "verif-c04-drain-")
	if err != nil {
		return nil, err
	}
	defer os.RemoveAll(tmp)
	if err := copyDir(dir, tmp); err != nil {
		return nil, err
	}
	q, err := hh.VNewQueue(tmp, 1<<30, 100)
	if err != nil {
		return nil, err
	}
	if err := q.Open(); err != nil {
		return nil, fmt.Errorf("open: %w", err)
	}
	defer q.Close()
	if err := q.SetMaxSegmentSize(maxSeg); err != nil {
		return nil, err
	}
	for n := 0; n < 1000; n++ {
		b, err := peek(q, q.Segments()+2)
		if err == io.EOF {
			return blocks, nil
		}
		if err != nil {
			return blocks, fmt.Errorf("current: %w", err)
		}
		blocks = append(blocks, b)
		if err := q.Advance(); err != nil {
			return blocks, fmt.Errorf("advance: %w", err)
		}
	}
	return blocks, fmt.Errorf("queue does not drain")
}

func layout(dir string) string {
	es, _ := os.ReadDir(dir)
	var parts []string
	for _, e := range es {
		b, _ := os.ReadFile(filepath.Join(dir, e.Name()))
		foot := int64(-1)
		if len(b) >= 8 {
			var v uint64
			for _, c := range b[len(b)-8:] {
				v = v<<8 | uint64(c)
			}
			foot = int64(v)
		}
		parts = append(parts, fmt.Sprintf("%s:%d@%d", e.Name(), len(b), foot))
	}
	sort.Strings(parts)
	return strings.Join(parts, ",")
}

func runSeq(ops []seqOp, seq []int) (res explore.StepResult) {
	dir, err := os.MkdirTemp("/dev/shm", "verif-c04-")
	if err != nil {
		res.Violation, res.Sig = "mkdtemp: "+err.Error(), "harness"
		return
	}
	defer os.RemoveAll(dir)
	q, _ := hh.VNewQueue(dir, 1<<30, 100)
	if err := q.Open(); err != nil {
		res.Violation, res.Sig = "open: "+err.Error(), "open-error"
		return
	}
	defer func() { q.Close() }()
	maxSeg := int64(segSize)
	q.SetMaxSegmentSize(maxSeg)
	var model [][]byte
	nextID := 0
	fail := func(sig, format string, a ...any) {
		res.Violation, res.Sig = fmt.Sprintf(format, a...), sig
	}
	for i, oi := range seq {
		op := ops[oi]
		last := i == len(seq)-1
		switch op.kind {
		case 0:
			b := blockBody(nextID, op.arg)
			nextID++
			err := q.Append(b)
			fits := int64(op.arg)+hh.VFooterSize <= maxSeg
			if err == nil {
				model = append(model, b)
				res.Obs = "append-ok"
			} else {
				res.Obs = "append-refused"
				if fits {
					// a refused append is not a lost block: the property does not demand that appends succeed
					res.Obs = "append-refused-though-it-fits:" + classErr(err)
				}
			}
		case 7:
			for k := 0; k < op.arg; k++ {
				b := blockBody(nextID, 56)
				nextID++
				if err := q.Append(b); err == nil {
					model = append(model, b)
				}
			}
			res.Obs = "burst"
		case 1, 2:
			b, err := peek(q, q.Segments()+2)
			if len(model) == 0 {
				if err != io.EOF {
					fail("phantom-block", "queue is empty in the model but Current returned (%q, %v)", b, err)
					return
				}
				res.Obs = "peek-empty"
				break
			}
			if err != nil {
				fail("current-error:"+classErr(err), "Current failed with %v although %d accepted blocks are pending (head %q)", err, len(model), head(model[0]))
				return
			}
			if !bytes.Equal(b, model[0]) {
				fail("wrong-head", "Current returned %q, the oldest pending block is %q", head(b), head(model[0]))
				return
			}
			res.Obs = "peek-ok"
			if op.kind == 2 {
				if err := q.Advance(); err != nil {
					fail("advance-error", "Advance failed: %v", err)
					return
				}
				model = model[1:]
				res.Obs = "consume-ok"
			}
		case 3:
			maxSeg = int64(op.arg)
			if err := q.SetMaxSegmentSize(maxSeg); err != nil {
				fail("setmax-error", "SetMaxSegmentSize failed: %v", err)
				return
			}
		case 4:
			if err := q.Close(); err != nil {
				fail("close-error", "Close failed: %v", err)
				return
			}
			q, _ = hh.VNewQueue(dir, 1<<30, 100)
			if err := q.Open(); err != nil {
				fail("reopen-error", "reopen failed: %v", err)
				return
			}
			q.SetMaxSegmentSize(maxSeg)
		case 5:
			if err := q.PurgeOlderThan(time.Now().Add(-time.Hour)); err != nil {
				fail("purge-error", "PurgeOlderThan failed: %v", err)
				return
			}
		case 6:
			es, _ := os.ReadDir(dir)
			old := time.Now().Add(-2 * time.Hour)
			for _, e := range es {
				os.Chtimes(filepath.Join(dir, e.Name()), old, old)
			}
			if err := q.PurgeOlderThan(time.Now().Add(-time.Hour)); err != nil {
				fail("purge-error", "PurgeOlderThan failed: %v", err)
				return
			}
			model = nil // everything was older than the age limit: a documented discard
		}
		if !last {
			continue
		}
		// oracles on the state after the last operation
		if e := q.Empty(); e != (len(model) == 0) {
			fail(fmt.Sprintf("empty-mismatch:reports=%v", e), "Empty() reports %v with %d blocks pending", e, len(model))
			return
		}
		got, err := drainCopy(dir, maxSeg)
		if err != nil {
			fail("drain-error:"+classErr(err), "a reopened copy of the queue does not drain: %v (got %d of %d pending blocks)", err, len(got), len(model))
			return
		}
		if len(got) != len(model) {
			fail(fmt.Sprintf("lost-or-extra:%+d", sign(len(got)-len(model))), "queue holds %d blocks after reopen, %d accepted blocks are pending", len(got), len(model))
			return
		}
		for k := range got {
			if !bytes.Equal(got[k], model[k]) {
				fail("order", "block %d after reopen is %q, expected %q", k, head(got[k]), head(model[k]))
				return
			}
		}
	}
	var ms []string
	for _, b := range model {
		ms = append(ms, fmt.Sprintf("%d", len(b)))
	}
	res.State = fmt.Sprintf("max=%d model=%s files=%s", maxSeg, strings.Join(ms, ","), layout(dir))
	return res
}

func sign(x int) int {
	if x < 0 {
		return -1
	}
	if x > 0 {
		return 1
	}
	return 0
}

func head(b []byte) string {
	if len(b) > 8 {
		return fmt.Sprintf("%s..(%dB)", b[:8], len(b))
	}
	return string(b)
}

func classErr(err error) string {
	s := err.Error()
	for _, k := range []string{"record size out of range", "EOF", "short", "bad seek", "not open"} {
		if strings.Contains(s, k) {
			return k
		}
	}
	return "other"
}
