// C04: hinted handoff queue loses nothing and keeps order.
package c04

import (
	"flag"
	"fmt"
	"os"
	"testing"

	"verif/mc/explore"
	"verif/mc/report"
)

var replayFile = flag.String("replay", "", "replay file")

func TestCheck(t *testing.T) {
	if spec := os.Getenv("VERIF_CRASH_CHILD"); spec != "" {
		crashChild(spec, os.Getenv("VERIF_CRASH_DIR"))
		return
	}
	if sc := explore.WorkerScenario(); sc != "" {
		workerMain(t, sc)
		return
	}
	c := report.Begin("C04", "model_checking")
	c.Rule = "(a) states = (model list, segment file layout) of the real hh queue reached by BFS over queue operations, each state validated by draining a reopened copy; (c) executions = schedules of k appenders racing Close/consumer on the real queue under the controlled scheduler; distinct = states + outcome classes"
	c.Assumptions = []string{
		"parts (a),(c): queue files live on tmpfs (/dev/shm); fsync is a no-op there, crash behaviour is decided by part (b)",
		"part (b) crash model: the durable state is a prefix of the file-system mutation log of one strace'd run per history (GOMAXPROCS=1), plus a write to a segment file not yet followed by fsync may be cut at any length (prefix of the new bytes over the old ones); no reordering, no lost directory entries; torn lengths by class in the quick tier, every length in the thorough tier",
		"segment size 64 bytes stands for the 10 MB default (all size comparisons are relative to it)",
		"scheduling points are the sync operations of services/hh and pkg/limiter; data races are outside a cooperative scheduler (see C19 auxiliary pass)",
	}
	ops := seqOps()
	if *replayFile != "" {
		rp, err := report.LoadReplay(*replayFile)
		if err != nil {
			t.Fatal(err)
		}
		if rp.Config["part"] == "b" {
			os.Setenv("VERIF_C04_HISTORY", rp.Config["history"])
			crashPart(c)
			report.ExitCode = c.Finish()
			return
		}
		if sc, ok := findScenario(rp.Config["scenario"]); ok {
			out, tp := explore.Replay(rp.Tape, schedBody(t, sc))
			fmt.Printf("replay scenario %s\n%v\noutcome: %+v\n", sc.name, tp.Labels(), out)
			if out.Violation != "" {
				report.ExitCode = 1
			}
			return
		}
		r := runSeq(ops, rp.Seq)
		fmt.Printf("replay %v: %+v\n", rp.Seq, r)
		if r.Violation != "" {
			report.ExitCode = 1
		}
		return
	}
	if os.Getenv("VERIF_C04_ONLY") == "crash" { // development aid: part (b) alone, nothing is written to the evidence directory
		crashPart(c)
		report.ExitCode = c.Finish()
		return
	}
	depth := c.Pick(5, 7)
	r := explore.BFS(explore.BFSConfig{Ops: len(ops), Depth: depth, Workers: 16, OpName: func(i int) string { return ops[i].name }},
		func(seq []int) explore.StepResult { return runSeq(ops, seq) })
	c.AddBFS("queue-operations", r, map[string]any{"part": "a"})
	schedPart(t, c)
	crashPart(c)
	report.ExitCode = c.Finish()
}

func TestMain(m *testing.M) { flag.Parse(); report.Main(m.Run) }
