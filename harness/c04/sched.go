package c04

import (
	"bytes"
	"fmt"
	"io"
	"os"
	"sort"
	"strings"
	"testing"
	"testing/synctest"

	"github.com/influxdata/influxdb/pkg/vsync"
	"github.com/influxdata/influxdb/services/hh"

	"verif/mc/explore"
	"verif/mc/report"
)

// ---- part (c): k appenders racing Close (and a consumer) under the controlled scheduler

type schedScenario struct {
	name      string
	appenders int
	consumer  bool
	preload   int  // blocks appended before the race
	freeStart bool // all threads reach their first lock before the first decision
	delay     bool // delay bounding (every non-default choice costs) instead of preemption bounding
	bound     [2]int
	noClose   bool // no Close thread: the on-disk state is inspected while the queue is still open
}

var schedScenarios = []schedScenario{
	{"2-appenders+close", 2, false, 0, false, false, [2]int{2, 3}, false},
	{"3-appenders+close", 3, false, 0, false, false, [2]int{2, 3}, false},
	{"2-appenders+consumer+close", 2, true, 2, false, false, [2]int{2, 3}, false},
	{"11-appenders(buffered path)+close", 11, false, 0, true, true, [2]int{1, 2}, false},
	{"11-appenders(buffered path)+consumer+close", 11, true, 2, true, true, [2]int{1, 2}, false},
	{"11-appenders(buffered path), queue left open", 11, false, 0, true, true, [2]int{1, 2}, true},
	{"12-appenders(buffered path)+consumer, queue left open", 12, true, 1, true, true, [2]int{1, 2}, true},
}

var focusHH = []string{"github.com/influxdata/influxdb/services/hh.", "github.com/influxdata/influxdb/pkg/limiter."}

func schedBody(t *testing.T, sc schedScenario) func(tp *explore.Tape) explore.Outcome {
	return func(tp *explore.Tape) (out explore.Outcome) {
		dir, err := os.MkdirTemp("/dev/shm", "verif-c04s-")
		if err != nil {
			panic(err)
		}
		defer os.RemoveAll(dir)
		acked := make([]bool, sc.appenders)
		var consumed []byte
		var consumedOK bool
		var preloaded [][]byte
		var res vsync.Result
		var onDisk [][]byte
		var derr error
		synctest.Test(t, func(t *testing.T) {
			q, _ := hh.VNewQueue(dir, 1<<30, 100)
			if err := q.Open(); err != nil {
				panic(err)
			}
			q.SetMaxSegmentSize(segSize)
			for i := 0; i < sc.preload; i++ {
				b := blockBody(100+i, 24)
				if err := q.Append(b); err != nil {
					panic(err)
				}
				preloaded = append(preloaded, b)
			}
			var threads []func()
			for i := 0; i < sc.appenders; i++ {
				i := i
				threads = append(threads, func() {
					if err := q.Append(blockBody(i, 24)); err == nil {
						acked[i] = true
					}
				})
			}
			if sc.consumer {
				threads = append(threads, func() {
					b, err := peek(q, q.Segments()+2)
					if err == nil {
						if q.Advance() == nil {
							consumed, consumedOK = b, true
						}
					}
				})
			}
			if !sc.noClose {
				threads = append(threads, func() { q.Close() })
			}
			choose := func(n int, label string, preempt bool) int {
				if preempt || sc.delay {
					return tp.Choose(n, label)
				}
				return tp.ChooseFree(n, label)
			}
			res = vsync.Run(choose, vsync.Config{Focus: focusHH, FreeStart: sc.freeStart}, threads...)
			if res.Deadlock || res.Livelock {
				out.Violation = fmt.Sprintf("deadlock=%v livelock=%v: %s", res.Deadlock, res.Livelock, strings.Join(res.Stuck, "; "))
				out.Sig = "deadlock"
				out.Steps = res.Steps
				explore.Abort(tp, out)
			}
			if sc.noClose {
				// after the burst has quiesced every acknowledged block must be on disk
				onDisk, derr = drainCopy(dir, segSize)
			}
			q.Close()
		})
		if sc.noClose {
			if derr != nil {
				out.Violation = "copy of the open queue does not drain: " + derr.Error()
				out.Sig = "open-drain-error:" + classErr(derr)
				return out
			}
			cnt := map[string]int{}
			for _, b := range onDisk {
				cnt[string(b)]++
			}
			for i := 0; i < sc.appenders; i++ {
				if acked[i] && cnt[string(blockBody(i, 24))] != 1 {
					out.Violation = fmt.Sprintf("append %d returned nil but after the burst quiesced (queue still open) the block is on disk %d times", i, cnt[string(blockBody(i, 24))])
					out.Sig = fmt.Sprintf("acked-append-not-on-disk=%d", cnt[string(blockBody(i, 24))])
					return out
				}
			}
		}
		out.Steps = res.Steps
		// after quiescence: reopen and drain
		got, err := drainCopy(dir, segSize)
		if err != nil {
			out.Violation = "queue does not drain after the race: " + err.Error()
			out.Sig = "drain-error:" + classErr(err)
			return out
		}
		count := map[string]int{}
		for _, b := range got {
			count[string(b)]++
		}
		nack := 0
		for i := 0; i < sc.appenders; i++ {
			b := string(blockBody(i, 24))
			if acked[i] {
				nack++
				if count[b] != 1 {
					out.Violation = fmt.Sprintf("append %d returned nil but the block is in the queue %d times after close and reopen (%d of %d appends acknowledged, %d blocks found)", i, count[b], nack, sc.appenders, len(got))
					out.Sig = fmt.Sprintf("acked-append-count=%d", count[b])
					return out
				}
			} else if count[b] > 1 {
				out.Violation = fmt.Sprintf("block of append %d appears %d times", i, count[b])
				out.Sig = "duplicate-block"
				return out
			}
			delete(count, b)
		}
		// preloaded blocks: in order, at most the consumed one missing
		var rest [][]byte
		for _, b := range got {
			if bytes.HasPrefix(b, []byte("10")) && len(b) == 24 && (b[3] == ':') {
				rest = append(rest, b)
			}
		}
		want := preloaded
		if consumedOK {
			if len(want) == 0 || !bytes.Equal(consumed, want[0]) {
				out.Violation = fmt.Sprintf("consumer received %q, the oldest pending block is another one", head(consumed))
				out.Sig = "consumer-wrong-head"
				return out
			}
			want = want[1:]
		}
		if len(rest) != len(want) {
			out.Violation = fmt.Sprintf("%d of the blocks queued before the race are left, expected %d", len(rest), len(want))
			out.Sig = "preloaded-lost"
			return out
		}
		for i := range want {
			if !bytes.Equal(rest[i], want[i]) {
				out.Violation = "blocks queued before the race changed order"
				out.Sig = "preloaded-order"
				return out
			}
		}
		var obs []string
		for i := range acked {
			if acked[i] {
				obs = append(obs, fmt.Sprint(i))
			}
		}
		sort.Strings(obs)
		out.Obs = fmt.Sprintf("acked=%d consumed=%v", len(obs), consumedOK)
		_ = io.EOF
		return out
	}
}

func findScenario(name string) (schedScenario, bool) {
	for _, s := range schedScenarios {
		if s.name == name {
			return s, true
		}
	}
	return schedScenario{}, false
}

func workerMain(t *testing.T, scenario string) {
	sc, ok := findScenario(scenario)
	if !ok {
		t.Fatalf("unknown scenario %q", scenario)
	}
	explore.WorkerLoop(schedBody(t, sc))
}

func schedPart(t *testing.T, c *report.Check) {
	for _, sc := range schedScenarios {
		bound := sc.bound[0]
		if c.Thorough() {
			bound = sc.bound[1]
		}
		kind := "preemption"
		if sc.delay {
			kind = "delay"
		}
		r := explore.ExploreProcs(explore.ProcConfig{Scenario: sc.name, Bound: bound, Procs: 16, Budget: 100})
		c.AddExplore(fmt.Sprintf("sched %s (%s bound %d)", sc.name, kind, bound), r, map[string]any{"part": "c", "scenario": sc.name, "bound": bound})
	}
}
