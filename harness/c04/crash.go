package c04

// Part (b) of C04: crash points of the hinted-handoff queue.
//
// Every history of queue operations (appends of two sizes, consume = Current +
// Advance, clean Close+Open) runs once on the real queue in a child process
// under strace. Every prefix of the file-system mutation log after the queue
// was opened is a crash point; if the last mutation is a write to a segment
// file that was not yet followed by fsync, its bytes are also torn (prefix of
// the new bytes over the old ones: the queue rewrites its 8-byte footer in
// place). Each distinct image is opened by the real queue and drained:
// the blocks must be the accepted, un-consumed blocks in order - a crash may
// cost only the append that had not returned and may leave the block whose
// Advance had not returned in the queue.

import (
	"encoding/json"
	"fmt"
	"io"
	"os"
	"os/exec"
	"path/filepath"
	"sort"
	"strings"
	"sync"

	"github.com/influxdata/influxdb/services/hh"

	"verif/mc/crashfs"
	"verif/mc/report"
)

type crashOp struct {
	name string
	kind int // 0 append, 2 consume, 4 reopen
	size int
}

var crashOps = []crashOp{
	{"Append(10B)", 0, 10},
	{"Append(40B)", 0, 40},
	{"Consume", 2, 0},
	{"Close+Open", 4, 0},
}

func crashBlock(id, size int) []byte {
	b := make([]byte, size)
	for i := range b {
		b[i] = byte('a' + id%26)
	}
	copy(b, fmt.Sprintf("%02d:", id))
	return b
}

// crashChild executes a history on the real queue, announcing BEGIN/ACK on /dev/null.
func crashChild(spec, dir string) {
	var seq []int
	json.Unmarshal([]byte(spec), &seq)
	mk, _ := os.OpenFile("/dev/null", os.O_WRONLY, 0)
	mark := func(s string) { mk.Write([]byte(s)) }
	fail := func(i int, err error) {
		fmt.Printf("CHILD-ERROR op %d: %v\n", i, err)
		os.Exit(3)
	}
	open := func() *hh.VQueue {
		q, err := hh.VNewQueue(dir, 1<<30, 100)
		if err != nil {
			fail(-1, err)
		}
		if err := q.Open(); err != nil {
			fail(-1, err)
		}
		if err := q.SetMaxSegmentSize(segSize); err != nil {
			fail(-1, err)
		}
		return q
	}
	q := open()
	mark("OPENED")
	for i, oi := range seq {
		o := crashOps[oi]
		mark(fmt.Sprintf("BEGIN %d", i))
		switch o.kind {
		case 0:
			if err := q.Append(crashBlock(i, o.size)); err != nil {
				fail(i, err)
			}
		case 2:
			if _, err := peek(q, q.Segments()+2); err != nil {
				if err == io.EOF {
					fmt.Println("CHILD-SKIP consume on an empty queue")
					os.Exit(0)
				}
				fail(i, err)
			}
			if err := q.Advance(); err != nil && err != io.EOF {
				fail(i, err)
			}
		case 4:
			if err := q.Close(); err != nil {
				fail(i, err)
			}
			q = open()
		}
		mark(fmt.Sprintf("ACK %d", i))
	}
	os.Exit(0) // the process "crashes" here: no clean close
}

// crashModel: what the queue may hold after a crash with `acked` operations
// acknowledged and operation `flight` (or -1) in progress.
func crashExpect(hist []int, acked, flight int) (base [][]byte, alt [][]byte) {
	var blocks [][]byte
	consumed := 0
	for i := 0; i < acked; i++ {
		switch o := crashOps[hist[i]]; o.kind {
		case 0:
			blocks = append(blocks, crashBlock(i, o.size))
		case 2:
			consumed++
		}
	}
	base = blocks[consumed:]
	if flight >= 0 {
		switch o := crashOps[hist[flight]]; o.kind {
		case 0:
			alt = append(append([][]byte{}, base...), crashBlock(flight, o.size))
		case 2:
			if len(base) > 0 {
				alt = base[1:]
			}
		}
	}
	return base, alt
}

func sameBlocks(a, b [][]byte) bool {
	if len(a) != len(b) {
		return false
	}
	for i := range a {
		if string(a[i]) != string(b[i]) {
			return false
		}
	}
	return true
}

func heads(bs [][]byte) string {
	var s []string
	for _, b := range bs {
		s = append(s, fmt.Sprintf("%s(%dB)", strings.SplitN(string(b), ":", 2)[0], len(b)))
	}
	return "[" + strings.Join(s, " ") + "]"
}

func drainDir(dir string, extra []byte) ([][]byte, error) {
	q, err := hh.VNewQueue(dir, 1<<30, 100)
	if err != nil {
		return nil, fmt.Errorf("open: %w", err)
	}
	if err := q.Open(); err != nil {
		return nil, fmt.Errorf("open: %w", err)
	}
	if err := q.SetMaxSegmentSize(segSize); err != nil {
		q.Close()
		return nil, fmt.Errorf("open: %w", err)
	}
	if extra != nil {
		if err := q.Append(extra); err != nil {
			q.Close()
			return nil, fmt.Errorf("append after recovery: %w", err)
		}
		if err := q.Close(); err != nil {
			return nil, fmt.Errorf("close after recovery: %w", err)
		}
		if q, err = hh.VNewQueue(dir, 1<<30, 100); err != nil {
			return nil, fmt.Errorf("reopen: %w", err)
		}
		if err := q.Open(); err != nil {
			return nil, fmt.Errorf("reopen: %w", err)
		}
		q.SetMaxSegmentSize(segSize)
	}
	defer q.Close()
	var blocks [][]byte
	for n := 0; n < 1000; n++ {
		b, err := peek(q, q.Segments()+2)
		if err == io.EOF {
			return blocks, nil
		}
		if err != nil {
			return blocks, fmt.Errorf("current: %w", err)
		}
		blocks = append(blocks, append([]byte(nil), b...))
		if err := q.Advance(); err != nil && err != io.EOF {
			return blocks, fmt.Errorf("advance: %w", err)
		}
	}
	return blocks, fmt.Errorf("queue does not drain")
}

// recoverQueue opens one crash image with the real queue and applies the oracle.
func recoverQueue(dir string, hist []int, acked, flight int) (viol, sig, obs string) {
	defer func() {
		if x := recover(); x != nil {
			viol, sig = fmt.Sprintf("the queue panicked on the crash image: %v", x), "crash:panic"
		}
	}()
	base, alt := crashExpect(hist, acked, flight)
	copyd := dir + "-cycle"
	if err := copyDir(dir, copyd); err != nil {
		return "copy: " + err.Error(), "internal", ""
	}
	defer os.RemoveAll(copyd)
	classify := func(got [][]byte, err error, tail []byte) (string, string) {
		wantA, wantB := base, alt
		if tail != nil {
			wantA = append(append([][]byte{}, base...), tail)
			if alt != nil {
				wantB = append(append([][]byte{}, alt...), tail)
			}
		}
		if err != nil {
			if strings.HasPrefix(err.Error(), "open:") || strings.HasPrefix(err.Error(), "reopen:") {
				return fmt.Sprintf("the queue cannot be opened after the crash: %v (it should hold %s)", err, heads(wantA)), "crash:queue-unreadable"
			}
			return fmt.Sprintf("draining the recovered queue failed after %s: %v (it should hold %s)", heads(got), err, heads(wantA)), "crash:drain-error"
		}
		if sameBlocks(got, wantA) || (wantB != nil && sameBlocks(got, wantB)) {
			return "", ""
		}
		// classify the difference
		all := map[string]bool{}
		for _, b := range got {
			all[string(b)] = true
		}
		for _, b := range wantA {
			if !all[string(b)] && !(wantB != nil && len(wantB) < len(wantA) && string(b) == string(wantA[0])) {
				return fmt.Sprintf("an accepted, un-consumed block is missing after the crash: the queue holds %s, it should hold %s", heads(got), heads(wantA)), "crash:accepted-block-lost"
			}
		}
		if len(got) > len(wantA) {
			return fmt.Sprintf("blocks whose Advance had returned are delivered again after the crash: the queue holds %s, it should hold %s", heads(got), heads(wantA)), "crash:completed-blocks-resent"
		}
		return fmt.Sprintf("the recovered queue holds %s, it should hold %s", heads(got), heads(wantA)), "crash:wrong-content"
	}
	got, err := drainDir(dir, nil)
	if v, s := classify(got, err, nil); v != "" {
		return v, s, ""
	}
	tail := crashBlock(99, 10)
	got2, err := drainDir(copyd, tail)
	if v, s := classify(got2, err, tail); v != "" {
		return "after recovery, one more append and a clean restart: " + v, s + ":next-cycle", ""
	}
	return "", "", fmt.Sprintf("holds=%d flight=%v", len(got), flight >= 0)
}

type crashResult struct {
	hist                             []int
	mutations, images, distinct, torn int
	skipped                          bool
	viols                            []struct{ viol, sig, detail string }
	obs                              map[string]bool
	err                              string
}

func isSegment(path string) bool {
	b := filepath.Base(path)
	if b == "" {
		return false
	}
	for _, c := range b {
		if c < '0' || c > '9' {
			return false
		}
	}
	return true
}

func tornLengths(n int, every bool) []int {
	set := map[int]bool{}
	if every {
		for i := 0; i < n; i++ {
			set[i] = true
		}
	} else {
		for _, c := range []int{0, 1, 7, 8, 9, 15, 16, n / 2, n - 9, n - 8, n - 1} {
			if c >= 0 && c < n {
				set[c] = true
			}
		}
	}
	var out []int
	for c := range set {
		out = append(out, c)
	}
	sort.Ints(out)
	return out
}

func runCrashHistory(hist []int, every bool) crashResult {
	res := crashResult{hist: hist, obs: map[string]bool{}}
	work, err := os.MkdirTemp("/dev/shm", "verif-c04c-")
	if err != nil {
		res.err = err.Error()
		return res
	}
	defer os.RemoveAll(work)
	root := filepath.Join(work, "live")
	os.MkdirAll(root, 0o755)
	spec, _ := json.Marshal(hist)
	var ops []crashfs.Op
	for attempt := 0; ; attempt++ {
		os.RemoveAll(root)
		os.MkdirAll(root, 0o755)
		cmd := exec.Command(os.Args[0], "-test.run", "^TestCheck$", "-test.timeout", "0")
		cmd.Env = append(os.Environ(), "VERIF_CRASH_CHILD="+string(spec), "VERIF_CRASH_DIR="+root, "GOMAXPROCS=1")
		logPath := filepath.Join(work, "strace.log")
		out, err := crashfs.Trace(cmd, logPath)
		if strings.Contains(string(out), "CHILD-SKIP") {
			res.skipped = true
			return res
		}
		if err != nil || strings.Contains(string(out), "CHILD-ERROR") {
			res.err = fmt.Sprintf("workload failed: %v %s", err, out)
			return res
		}
		ops, err = crashfs.Parse(logPath, root)
		if err == nil {
			break
		}
		if attempt == 2 {
			res.err = "parse: " + err.Error()
			return res
		}
	}
	fs := crashfs.NewFS(root)
	acked, flight, opened := 0, -1, false
	seen := map[string]bool{}
	n := 0
	lastWriteLen := 0
	emit := func(tornPath string, torn int, desc string) {
		key := fmt.Sprintf("%s/%d/%d", fs.Hash(tornPath, torn), acked, flight)
		if seen[key] {
			return
		}
		seen[key] = true
		n++
		dir := filepath.Join(work, fmt.Sprintf("img%d", n))
		if err := fs.Materialize(dir, tornPath, torn); err != nil {
			res.err = "materialize: " + err.Error()
			return
		}
		res.distinct++
		v, s, obs := recoverQueue(dir, hist, acked, flight)
		os.RemoveAll(dir)
		if v != "" {
			// the signature names the kind of crash image, so that a recorded finding about torn
			// in-place footer rewrites does not hide a loss at a plain prefix or after an acknowledgement
			switch {
			case torn < 0:
				s += ":whole-writes"
			case flight < 0:
				s += ":torn-write-after-ack"
			case crashOps[hist[flight]].kind == 0:
				s += ":torn-append-in-flight"
			case crashOps[hist[flight]].kind == 2:
				s += ":torn-advance-in-flight"
			default:
				s += ":torn-write-during-restart"
			}
			res.viols = append(res.viols, struct{ viol, sig, detail string }{v, s, fmt.Sprintf("%s [acknowledged ops: %d, op in flight: %d]", desc, acked, flight)})
		} else {
			res.obs[obs] = true
		}
	}
	for _, op := range ops {
		if op.Name == "marker" {
			switch {
			case op.Marker == "OPENED":
				opened = true
			case strings.HasPrefix(op.Marker, "BEGIN "):
				fmt.Sscanf(op.Marker, "BEGIN %d", &flight)
			case strings.HasPrefix(op.Marker, "ACK "):
				var i int
				fmt.Sscanf(op.Marker, "ACK %d", &i)
				acked, flight = i+1, -1
				// an operation acknowledged while its last segment write is not yet synced: that write may still be torn
				if opened && fs.LastWrite != "" && isSegment(fs.LastWrite) {
					for _, t := range fs.TornChoices(fs.LastWrite, false) {
						if t > lastWriteLen {
							continue
						}
						res.images++
						res.torn++
						emit(fs.LastWrite, t, fmt.Sprintf("crash after operation %d was acknowledged, with only %d bytes of its last (unsynced) segment write on disk", i, t))
					}
				}
			}
			continue
		}
		mutated, err := fs.Apply(op)
		if err != nil {
			res.err = "model fs: " + err.Error()
			break
		}
		if !mutated || !opened {
			continue
		}
		res.mutations++
		res.images++
		emit("", -1, fmt.Sprintf("crash after mutation %d (strace line %d: %s %s)", res.mutations, op.Line, op.Name, filepath.Base(op.Path)))
		if fs.LastWrite != "" && isSegment(fs.LastWrite) {
			lastWriteLen = len(op.Data)
			for _, t := range tornLengths(len(op.Data), every) {
				res.images++
				res.torn++
				emit(fs.LastWrite, t, fmt.Sprintf("crash after mutation %d with only %d of the %d bytes of the last write to segment %s on disk (line %d)", res.mutations, t, len(op.Data), filepath.Base(op.Path), op.Line))
			}
		}
	}
	if res.err == "" {
		if err := fs.CompareWithDir(root); err != nil {
			res.err = "model file system diverged from the real one: " + err.Error()
		}
	}
	return res
}

func crashHistName(h []int) []string {
	var n []string
	for _, o := range h {
		n = append(n, crashOps[o].name)
	}
	return n
}

func crashPart(c *report.Check) {
	depth := c.Pick(4, 5)
	var hists [][]int
	var rec func(cur []int, pending int)
	rec = func(cur []int, pending int) {
		if len(cur) > 0 {
			hists = append(hists, append([]int(nil), cur...))
		}
		if len(cur) == depth {
			return
		}
		for i, o := range crashOps {
			p := pending
			switch o.kind {
			case 0:
				p++
			case 2:
				if pending == 0 {
					continue // nothing to consume
				}
				p--
			case 4:
				if len(cur) > 0 && crashOps[cur[len(cur)-1]].kind == 4 {
					continue
				}
			}
			rec(append(cur, i), p)
		}
	}
	if h := os.Getenv("VERIF_C04_HISTORY"); h != "" {
		var one []int
		json.Unmarshal([]byte(h), &one)
		hists = [][]int{one}
	} else {
		rec(nil, 0)
	}
	var mu sync.Mutex
	var wg sync.WaitGroup
	sem := make(chan struct{}, 16)
	var images, distinct, torn, muts, ran int64
	obs := map[string]bool{}
	type found struct {
		hist              []int
		viol, sig, detail string
	}
	bySig := map[string]found{}
	var errs []string
	for _, h := range hists {
		h := h
		wg.Add(1)
		sem <- struct{}{}
		go func() {
			defer wg.Done()
			defer func() { <-sem }()
			r := runCrashHistory(h, c.Thorough())
			mu.Lock()
			defer mu.Unlock()
			if r.skipped {
				return
			}
			if r.err != "" {
				errs = append(errs, fmt.Sprintf("%v: %s", crashHistName(h), r.err))
				return
			}
			ran++
			images += int64(r.images)
			distinct += int64(r.distinct)
			torn += int64(r.torn)
			muts += int64(r.mutations)
			for k := range r.obs {
				obs[k] = true
			}
			for _, v := range r.viols {
				if old, ok := bySig[v.sig]; !ok || len(h) < len(old.hist) {
					bySig[v.sig] = found{h, v.viol, v.sig, v.detail}
				}
			}
		}()
	}
	wg.Wait()
	for _, e := range errs {
		c.InternalError("crash images: %s", e)
	}
	var sigs []string
	for s := range bySig {
		sigs = append(sigs, s)
	}
	sort.Strings(sigs)
	for _, s := range sigs {
		f := bySig[s]
		// a violation must reproduce on a fresh trace of the same history
		again := runCrashHistory(f.hist, c.Thorough())
		ok := false
		for _, v := range again.viols {
			if v.sig == s {
				ok = true
			}
		}
		if !ok {
			obs["violation-not-reproduced:"+s] = true
			continue
		}
		hj, _ := json.Marshal(f.hist)
		c.Violation(s, fmt.Sprintf("%s; history %v; %s", f.viol, crashHistName(f.hist), f.detail), map[string]any{"scenario": "crash", "config": map[string]any{"part": "b", "history": string(hj)}, "seq": f.hist})
	}
	dist := map[string]bool{}
	for k := range obs {
		dist[k] = true
	}
	c.AddCount("crash images of the queue", images, dist, true, map[string]any{"histories": ran, "mutations": muts, "distinct_images": distinct, "torn_images": torn})
}
