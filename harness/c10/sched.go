package c10

import (
	"testing"

	"verif/mc/report"
)

func workerMain(t *testing.T, scenario string)    {}
func schedPart(t *testing.T, c *report.Check)     {}
func replaySched(t *testing.T, rp *report.Replay) {}
