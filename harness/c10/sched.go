package c10

// Part (c) of C10: schedules in which a delete overlaps a cache snapshot or a
// compaction already in flight. Two threads on a real shard under the
// controlled scheduler (every sync operation of the tsdb packages is a
// scheduling point, delay-bounded): one runs WriteSnapshot / a full
// compaction, the other a range delete or a series drop. After quiescence, after
// a further snapshot and compaction, and after a reopen, a delete that
// returned nil must hold: the deleted points are gone and stay gone, everything
// else is still there.

import (
	"fmt"
	"os"
	"strings"
	"testing"
	"testing/synctest"

	"github.com/influxdata/influxdb/pkg/vsync"
	"github.com/influxdata/influxql"

	ek "verif/harness/enginekit"
	"verif/mc/explore"
	"verif/mc/report"
)

type schedScenario struct {
	name     string
	base     string // "cache": everything in the cache; "files": two TSM files + cache
	other    string // "snapshot" | "compact"
	del      string // "range" | "series"
	bound    [2]int
	maxExecs [2]int64
}

var schedScenarios = []schedScenario{
	{name: "range delete x cache snapshot in flight", base: "cache", other: "snapshot", del: "range", bound: [2]int{1, 2}},
	{name: "series drop x cache snapshot in flight", base: "cache", other: "snapshot", del: "series", bound: [2]int{1, 2}},
	{name: "range delete x full compaction in flight", base: "files", other: "compact", del: "range", bound: [2]int{1, 2}},
	{name: "series drop x full compaction in flight", base: "files", other: "compact", del: "series", bound: [2]int{1, 2}},
}

var (
	scA = ek.Series{Measurement: "cpu", Tags: map[string]string{"host": "a"}}
	scB = ek.Series{Measurement: "cpu", Tags: map[string]string{"host": "b"}}
)

func sfv(x float64) ek.Val { return ek.Val{Typ: influxql.Float, F: x} }

func schedBody(t *testing.T, sc schedScenario) func(tp *explore.Tape) explore.Outcome {
	return func(tp *explore.Tape) (out explore.Outcome) {
		dir := ek.NewTempDir("c10c")
		defer os.RemoveAll(dir)
		var errO, errD error
		var res vsync.Result
		var viol, sig string
		filesAfter := ""
		synctest.Test(t, func(t *testing.T) {
			env := &ek.Env{Dir: dir, IndexType: "inmem", BlockSize: 2, WAL: true}
			if err := env.Open(); err != nil {
				panic(err)
			}
			defer env.Close()
			m := ek.NewModel()
			write := func(pts []ek.Point) {
				m.Write(pts)
				if err := env.Write(pts); err != nil {
					panic(err)
				}
			}
			write([]ek.Point{{scA, "v", 1, sfv(1)}, {scA, "v", 2, sfv(2)}, {scA, "v", 3, sfv(3)}, {scB, "v", 2, sfv(20)}})
			if sc.base == "files" {
				env.Snapshot()
				write([]ek.Point{{scA, "v", 4, sfv(4)}, {scB, "v", 4, sfv(40)}})
				env.Snapshot()
				write([]ek.Point{{scA, "v", 5, sfv(5)}})
			}
			other := func() { errO = env.Snapshot() }
			if sc.other == "compact" {
				other = func() {
					// as the engine's compaction loop runs it: registered in the compaction wait group
					done := env.Engine.VCompactFullInFlight()
					if done == nil {
						errO = fmt.Errorf("compactions are disabled")
						return
					}
					<-done
				}
			}
			cond, min, max := "host = 'a' AND time >= 2 AND time <= 4", int64(2), int64(4)
			if sc.del == "series" {
				cond, min, max = "host = 'a'", influxql.MinTime, influxql.MaxTime
			}
			del := func() { errD = env.DeleteWhere("cpu", cond) }
			// let goroutines left over from the set-up (WAL sync, snapshot writers) finish or block
			// before the scheduler takes over: their progress would otherwise differ between runs
			synctest.Wait()
			res = vsync.Run(func(n int, label string, preempt bool) int { return tp.Choose(n, label) },
				vsync.Config{Focus: []string{"github.com/influxdata/influxdb/tsdb"}}, other, del)
			if res.Deadlock || res.Livelock {
				out.Violation = fmt.Sprintf("deadlock=%v livelock=%v: %s", res.Deadlock, res.Livelock, strings.Join(res.Stuck, "; "))
				out.Sig = "sched:deadlock:" + sc.other
				out.Steps = res.Steps
				explore.Abort(tp, out)
			}
			filesAfter = env.Engine.VLayout() // physical outcome of the race: which files exist, with which tombstones
			if errD != nil {
				return // the delete did not complete: nothing is claimed for it
			}
			m.DeleteRange(func(s ek.Series) bool { return s.Key() == scA.Key() }, min, max)
			check := func(when string) bool {
				if v, s := env.CheckReads(m, []ek.Series{scA, scB}, map[string]influxql.DataType{"v": influxql.Float}, []ek.Range{{influxql.MinTime, influxql.MaxTime, true}, {influxql.MinTime, influxql.MaxTime, false}}, true); v != "" {
					viol = fmt.Sprintf("%s a delete that completed while a %s was in flight: %s", when, sc.other, v)
					sig = "sched:" + sc.del + "-delete-vs-" + sc.other + ":" + s
					return false
				}
				return true
			}
			if !check("after quiescence,") {
				return
			}
			if err := env.Snapshot(); err != nil && !strings.Contains(err.Error(), "snapshot in progress") {
				viol, sig = "snapshot after the race failed: "+err.Error(), "sched:later-snapshot-error"
				return
			}
			if !check("after a further snapshot,") {
				return
			}
			env.Engine.VCompact("full")
			if !check("after a further full compaction,") {
				return
			}
			if err := env.Reopen(); err != nil {
				viol, sig = "reopen failed: "+err.Error(), "sched:reopen-error"
				return
			}
			check("after a restart,")
		})
		out.Steps = res.Steps
		out.Obs = fmt.Sprintf("%s: other-err=%v delete-err=%v layout-after=%s", sc.name, errO != nil, errD != nil, filesAfter)
		out.Violation, out.Sig = viol, sig
		out.Detail = sc.name
		return out
	}
}

func findSched(name string) (schedScenario, bool) {
	for _, s := range schedScenarios {
		if s.name == name {
			return s, true
		}
	}
	return schedScenario{}, false
}

func workerMain(t *testing.T, scenario string) {
	sc, ok := findSched(scenario)
	if !ok {
		t.Fatalf("unknown scenario %q", scenario)
	}
	explore.WorkerLoop(schedBody(t, sc))
}

func schedPart(t *testing.T, c *report.Check) {
	for _, sc := range schedScenarios {
		bound := sc.bound[0]
		if c.Thorough() {
			bound = sc.bound[1]
		}
		r := explore.ExploreProcs(explore.ProcConfig{Scenario: sc.name, Bound: bound, Procs: 16, Budget: 50, MaxExecs: int64(c.Pick(20000, 300000))})
		c.AddExplore(fmt.Sprintf("schedules: %s (delay bound %d)", sc.name, bound), r, map[string]any{"part": "c", "scenario": sc.name, "bound": bound})
	}
}

func replaySched(t *testing.T, rp *report.Replay) {
	sc, ok := findSched(rp.Config["scenario"])
	if !ok {
		t.Fatalf("unknown scenario %q", rp.Config["scenario"])
	}
	out, tp := explore.Replay(rp.Tape, schedBody(t, sc))
	fmt.Printf("replay %s\n%d choices\n%s\noutcome: %+v\n", sc.name, len(tp.Choices), strings.Join(tp.Labels(), "\n"), out)
	if out.Violation != "" {
		report.ExitCode = 1
	}
}
