// C10: deletes remove exactly the targeted data, permanently.
//
// (a) explicit-state BFS over writes, range deletes (closed, open-ended,
// single-instant), series drops, measurement drops, whole-database deletes,
// snapshot, compaction and reopen on a real tsdb.Store, for both index types.
// After every transition all reads and all index listings are compared with
// the reference model.
package c10

import (
	"flag"
	"fmt"
	"os"
	"strings"
	"testing"
	"testing/synctest"
	"time"

	"github.com/influxdata/influxdb/tsdb/engine/tsm1"
	"github.com/influxdata/influxql"

	ek "verif/harness/enginekit"
	"verif/mc/explore"
	"verif/mc/report"
)

var replayFile = flag.String("replay", "", "replay file")

var (
	sA = ek.Series{Measurement: "cpu", Tags: map[string]string{"host": "a"}}
	sB = ek.Series{Measurement: "cpu", Tags: map[string]string{"host": "b"}}
	sM = ek.Series{Measurement: "mem", Tags: map[string]string{"host": "a", "dc": "x"}}
)

func fv(x float64) ek.Val { return ek.Val{Typ: influxql.Float, F: x} }
func iv(x int64) ek.Val   { return ek.Val{Typ: influxql.Integer, I: x} }

type op struct {
	name     string
	write    []ek.Point
	kind     string
	meas     string
	cond     string
	sel      func(ek.Series) bool
	min      int64
	max      int64
	dropMeas string
}

func ops() []op {
	all := func(ek.Series) bool { return true }
	hostA := func(s ek.Series) bool { return s.Tags["host"] == "a" }
	cpu := func(f func(ek.Series) bool) func(ek.Series) bool {
		return func(s ek.Series) bool { return s.Measurement == "cpu" && f(s) }
	}
	return []op{
		{name: "write cpu.a f@1,2,3 i@2", write: []ek.Point{{sA, "f", 1, fv(1.1)}, {sA, "f", 2, fv(1.2)}, {sA, "f", 3, fv(1.3)}, {sA, "i", 2, iv(12)}}},
		{name: "write cpu.b f@2,4", write: []ek.Point{{sB, "f", 2, fv(2.2)}, {sB, "f", 4, fv(2.4)}}},
		{name: "write mem.a f@3", write: []ek.Point{{sM, "f", 3, fv(3.3)}}},
		{name: "write cpu.a f@2,5 (after)", write: []ek.Point{{sA, "f", 2, fv(9.2)}, {sA, "f", 5, fv(9.5)}}},
		{name: "write cpu.a f@6,7 (later, disjoint)", write: []ek.Point{{sA, "f", 6, fv(6.6)}, {sA, "f", 7, fv(6.7)}}},
		{name: "snapshot", kind: "snapshot"},
		{name: "compact full", kind: "compact:full"},
		{name: "compact optimize", kind: "compact:optimize"},
		{name: "DELETE FROM cpu WHERE time>=6 AND time<=6", kind: "delete", meas: "cpu", cond: "time >= 6 AND time <= 6", sel: cpu(all), min: 6, max: 6},
		{name: "reopen", kind: "reopen"},
		{name: "DELETE FROM cpu WHERE host='a' AND time>=2 AND time<=3", kind: "delete", meas: "cpu", cond: "host = 'a' AND time >= 2 AND time <= 3", sel: cpu(hostA), min: 2, max: 3},
		{name: "DELETE FROM cpu WHERE time>=3", kind: "delete", meas: "cpu", cond: "time >= 3", sel: cpu(all), min: 3, max: influxql.MaxTime},
		{name: "DELETE FROM cpu WHERE host='a' AND time=2", kind: "delete", meas: "cpu", cond: "host = 'a' AND time = 2", sel: cpu(hostA), min: 2, max: 2},
		{name: "DELETE FROM cpu WHERE time<=1", kind: "delete", meas: "cpu", cond: "time <= 1", sel: cpu(all), min: influxql.MinTime, max: 1},
		{name: "DELETE FROM cpu WHERE host='b' AND time<=4", kind: "delete", meas: "cpu", cond: "host = 'b' AND time <= 4", sel: cpu(func(s ek.Series) bool { return s.Tags["host"] == "b" }), min: influxql.MinTime, max: 4},
		{name: "DROP SERIES FROM cpu WHERE host='a'", kind: "delete", meas: "cpu", cond: "host = 'a'", sel: cpu(hostA), min: influxql.MinTime, max: influxql.MaxTime},
		{name: "DROP SERIES WHERE host='a' (all measurements)", kind: "delete", meas: "", cond: "host = 'a'", sel: hostA, min: influxql.MinTime, max: influxql.MaxTime},
		{name: "DROP MEASUREMENT cpu", kind: "dropmeas", dropMeas: "cpu"},
		{name: "DELETE (whole database) WHERE time>=2 AND time<=4", kind: "delete", meas: "", cond: "time >= 2 AND time <= 4", sel: all, min: 2, max: 4},
	}
}

var universe = []ek.Series{sA, sB, sM}
var fieldTypes = map[string]influxql.DataType{"f": influxql.Float, "i": influxql.Integer}
var ranges = []ek.Range{{influxql.MinTime, influxql.MaxTime, true}, {influxql.MinTime, influxql.MaxTime, false}, {2, 3, true}, {3, 5, false}}
var tagKeys = []string{"host", "dc"}

// bases are operation prefixes (by name) the search can start from, so that
// deep physical layouts are reached within a small search depth.
var bases = map[string][]string{
	"empty":     nil,
	"two-files": {"write cpu.a f@1,2,3 i@2", "write cpu.b f@2,4", "write mem.a f@3", "snapshot", "write cpu.a f@6,7 (later, disjoint)", "snapshot"},
}

func prefixOf(alphabet []op, names []string) []int {
	var out []int
	for _, n := range names {
		found := false
		for i, o := range alphabet {
			if o.name == n {
				out = append(out, i)
				found = true
			}
		}
		if !found {
			panic("unknown op " + n)
		}
	}
	return out
}

func run(t *testing.T, alphabet []op, seq []int, index string) explore.StepResult {
	return explore.Guard(120*time.Second, func() explore.StepResult { return runUnguarded(t, alphabet, seq, index) })
}

func runUnguarded(t *testing.T, alphabet []op, seq []int, index string) (res explore.StepResult) {
	dir := ek.NewTempDir("c10")
	defer os.RemoveAll(dir)
	synctest.Test(t, func(t *testing.T) {
		env := &ek.Env{Dir: dir, IndexType: index, BlockSize: 2, WAL: true}
		if err := env.Open(); err != nil {
			res.Violation, res.Sig = "open: "+err.Error(), "open-error"
			return
		}
		defer env.Close()
		m := ek.NewModel()
		for i, oi := range seq {
			o := alphabet[oi]
			last := i == len(seq)-1
			switch {
			case o.write != nil:
				m.Write(o.write)
				if err := env.Write(o.write); err != nil && last {
					res.Violation, res.Sig = fmt.Sprintf("write %q failed: %v", o.name, err), "write-error"
					return
				}
			case o.kind == "snapshot":
				if err := env.Snapshot(); err != nil && last {
					res.Violation, res.Sig = "snapshot failed: "+err.Error(), "snapshot-error"
					return
				}
			case len(o.kind) > 8 && o.kind[:8] == "compact:":
				n, ok, err := env.Engine.VCompact(o.kind[8:])
				if last {
					if err != nil || !ok {
						res.Violation, res.Sig = fmt.Sprintf("compaction %s failed (ok=%v err=%v)", o.kind, ok, err), "compaction-failed"
						return
					}
					if n == 0 {
						res.Skip = true
						return
					}
				}
			case o.kind == "delete":
				m.DeleteRange(o.sel, o.min, o.max)
				if err := env.DeleteWhere(o.meas, o.cond); err != nil && last {
					res.Violation, res.Sig = "delete failed: "+err.Error(), "delete-error"
					return
				}
			case o.kind == "dropmeas":
				m.DeleteRange(func(s ek.Series) bool { return s.Measurement == o.dropMeas }, influxql.MinTime, influxql.MaxTime)
				if err := env.Store.DeleteMeasurement(ek.DB, o.dropMeas); err != nil && last {
					res.Violation, res.Sig = "drop measurement failed: "+err.Error(), "delete-error"
					return
				}
			case o.kind == "reopen":
				if err := env.Reopen(); err != nil {
					res.Violation, res.Sig = "reopen failed: "+err.Error(), "reopen-error"
					return
				}
			}
			if !last {
				continue
			}
			if v, s := env.CheckReads(m, universe, fieldTypes, ranges, true); v != "" {
				res.Violation, res.Sig, res.Detail = v, s, "layout: "+env.Engine.VLayout()
				return
			}
			v, s, soft := env.CheckListingsTolerant(m, tagKeys, index == "tsi1")
			if v != "" {
				if strings.HasPrefix(s, "listing:lingering-") && emptiedKeyInFiles(env, m) {
					// known finding: a series emptied by several partial deletes keeps its key in a TSM index
					// (every block tombstoned) and is therefore kept in the shard's index; keep exploring
					res.SoftViolation, res.SoftSig, res.SoftDetail = v, s+":emptied-by-partial-deletes:"+index, "model:\n"+m.Dump()+"layout: "+env.Engine.VLayout()
					res.Obs = o.kind
					res.State = m.Dump() + "|" + env.Engine.VLayout()
					return
				}
				res.Violation, res.Sig, res.Detail = v, s+":"+index, "model:\n"+m.Dump()+"layout: "+env.Engine.VLayout()
				return
			}
			if soft != "" {
				res.SoftViolation, res.SoftSig, res.SoftDetail = soft, "listing:lingering-tagvalue:tsi1", "model:\n"+m.Dump()
			}
			res.Obs = o.kind
			res.State = m.Dump() + "|" + env.Engine.VLayout()
		}
		if len(seq) == 0 {
			res.State = "empty"
		}
	})
	return res
}

// emptiedKeyInFiles reports whether some TSM file still carries an index entry
// for a series that has no points left (all of its blocks are tombstoned by
// deletes none of which removed the key as a whole).
func emptiedKeyInFiles(env *ek.Env, m *ek.Model) bool {
	for _, f := range env.Engine.FileStore.Files() {
		for i := 0; i < f.KeyCount(); i++ {
			k, _ := f.KeyAt(i)
			sk, _ := tsm1.SeriesAndFieldFromCompositeKey(k)
			live := false
			for _, byTime := range m.Data[string(sk)] {
				if len(byTime) > 0 {
					live = true
				}
			}
			if !live {
				return true
			}
		}
	}
	return false
}

func TestCheck(t *testing.T) {
	if sc := explore.WorkerScenario(); sc != "" {
		workerMain(t, sc)
		return
	}
	c := report.Begin("C10", "model_checking")
	c.Rule = "(a) states = (model content, physical layout) of a real shard reached by BFS over writes/deletes/drops/snapshot/compaction/reopen; after every transition all reads and all listings (measurement names, tag keys, tag values, series, cardinality) are compared with the model; distinct = states"
	c.Assumptions = []string{
		"runs inside a synctest bubble (background loops inert); deletes go through Store.DeleteSeries / Store.DeleteMeasurement as the statement executor calls them",
		"2 points per block; three series in two measurements",
	}
	alphabet := ops()
	if *replayFile != "" {
		rp, err := report.LoadReplay(*replayFile)
		if err != nil {
			t.Fatal(err)
		}
		if rp.Config["part"] == "c" {
			replaySched(t, rp)
			return
		}
		idx := rp.Config["index"]
		if idx == "" {
			idx = "inmem"
		}
		r := run(t, alphabet, append(prefixOf(alphabet, bases[rp.Config["base"]]), rp.Seq...), idx)
		fmt.Printf("replay %v (%s): violation=%q sig=%q\n%s\n", rp.Seq, idx, r.Violation, r.Sig, r.Detail)
		if r.Violation != "" {
			report.ExitCode = 1
		}
		return
	}
	for _, idx := range []string{"inmem", "tsi1"} {
		for _, base := range []string{"empty", "two-files"} {
			idx, base := idx, base
			depth := c.Pick(3, 4)
			if idx == "inmem" && base == "empty" {
				depth = c.Pick(4, 5)
			}
			pre := prefixOf(alphabet, bases[base])
			r := explore.BFS(explore.BFSConfig{Ops: len(alphabet), Depth: depth, Workers: 16, OpName: func(i int) string { return alphabet[i].name }},
				func(seq []int) explore.StepResult {
					r := run(t, alphabet, append(append([]int{}, pre...), seq...), idx)
					if len(seq) == 0 {
						r.Skip = false
					}
					return r
				})
			c.AddBFS("delete-histories index="+idx+" base="+base, r, map[string]any{"index": idx, "part": "a", "base": base})
		}
	}
	schedPart(t, c)
	report.ExitCode = c.Finish()
}

func TestMain(m *testing.M) { flag.Parse(); report.Main(m.Run) }
