// C15: the inter-node protocol is lossless and cannot be used to crash a node.
//
// (A) Frames into the real Service.handleConn over an in-memory connection
// inside a synctest bubble: every message type byte x a length alphabet
// (negative, zero, short, exact, long, at and beyond the maximum) x payload
// variants (each valid message, cut at every offset, valid envelope with
// unparsable contents, garbage). The handler must not panic, must answer or
// close for every complete request, must return once the peer is gone.
// (B) Round trip of every request/response type over small field alphabets,
// and of streamed points (all types, tags, aux values incl. empty strings and
// typed nils, nil markers) through IteratorEncoder -> ReaderIterator.
package c15

import (
	"bytes"
	"context"
	"encoding"
	"encoding/binary"
	"errors"
	"flag"
	"fmt"
	"io"
	"math"
	"net"
	"os"
	"reflect"
	"strings"
	"sync"
	"testing"
	"testing/synctest"
	"time"

	"github.com/influxdata/influxdb/coordinator"
	"github.com/influxdata/influxdb/models"
	"github.com/influxdata/influxdb/query"
	"github.com/influxdata/influxdb/services/meta"
	"github.com/influxdata/influxdb/tsdb"
	"github.com/influxdata/influxql"

	ek "verif/harness/enginekit"
	"verif/mc/report"
)

var replayFile = flag.String("replay", "", "replay file")

type metaStub struct{}

func (metaStub) NodeID() uint64                                     { return 1 }
func (metaStub) MetaServers() []string                              { return nil }
func (metaStub) SetMetaServers(a []string)                          {}
func (metaStub) DataNode(id uint64) (*meta.NodeInfo, error)         { return &meta.NodeInfo{ID: id}, nil }
func (metaStub) CreateDataNode(h, t string) (*meta.NodeInfo, error) { return nil, errors.New("no") }
func (metaStub) DataNodeByTCPAddr(tcpAddr string) (*meta.NodeInfo, error) {
	return nil, errors.New("no")
}
func (metaStub) Status() (*meta.MetaNodeStatus, error) { return nil, errors.New("no") }
func (metaStub) Save() error                           { return nil }

type serverStub struct{}

func (serverStub) Reset() error       { return nil }
func (serverStub) HTTPAddr() string   { return "h:8086" }
func (serverStub) HTTPScheme() string { return "http" }
func (serverStub) TCPAddr() string    { return "h:8088" }

type frame struct {
	desc    string
	bytes   []byte
	expects string // "answer-or-close": a complete request whose content is bad or good; "any": incomplete / protocol-level garbage
}

func lv(typ byte, declared int64, payload []byte) []byte {
	b := []byte{typ}
	var l [8]byte
	binary.BigEndian.PutUint64(l[:], uint64(declared))
	b = append(b, l[:]...)
	return append(b, payload...)
}

func mustMarshal(v encoding.BinaryMarshaler) []byte {
	b, err := v.MarshalBinary()
	if err != nil {
		panic(err)
	}
	return b
}

// validMessages returns (type byte, payload) of well-formed requests.
func validMessages() map[byte][]byte {
	out := map[byte][]byte{}
	var w coordinator.WriteShardRequest
	w.SetShardID(1)
	w.SetDatabase(ek.DB)
	w.SetRetentionPolicy(ek.RP)
	w.AddPoints([]models.Point{models.MustNewPoint("cpu", models.NewTags(map[string]string{"h": "a"}), models.Fields{"v": 1.0}, time.Unix(0, 1))})
	out[coordinator.VWriteShardRequest] = mustMarshal(&w)
	var e coordinator.ExecuteStatementRequest
	e.SetStatement("DROP MEASUREMENT nothing")
	e.SetDatabase(ek.DB)
	out[coordinator.VExecuteStatementRequest] = mustMarshal(&e)
	cond, _ := influxql.ParseExpr("host = 'a'")
	out[coordinator.VMeasurementNamesRequest] = mustMarshal(&coordinator.MeasurementNamesRequest{Database: ek.DB, Condition: cond})
	out[coordinator.VTagKeysRequest] = mustMarshal(&coordinator.TagKeysRequest{ShardIDs: []uint64{1}, Condition: cond})
	tv, _ := influxql.ParseExpr("_tagKey = 'host'")
	out[coordinator.VTagValuesRequest] = mustMarshal(&coordinator.TagValuesRequest{ShardIDs: []uint64{1}, Condition: tv})
	m := influxql.Measurement{Database: ek.DB, RetentionPolicy: ek.RP, Name: "cpu"}
	opt := query.IteratorOptions{Expr: &influxql.VarRef{Val: "v", Type: influxql.Float}, StartTime: influxql.MinTime, EndTime: influxql.MaxTime, Ascending: true}
	out[coordinator.VCreateIteratorRequest] = mustMarshal(&coordinator.CreateIteratorRequest{ShardIDs: []uint64{1}, Measurement: m, Opt: opt})
	out[coordinator.VIteratorCostRequest] = mustMarshal(&coordinator.IteratorCostRequest{ShardIDs: []uint64{1}, Measurement: m, Opt: opt})
	out[coordinator.VFieldDimensionsRequest] = mustMarshal(&coordinator.FieldDimensionsRequest{ShardIDs: []uint64{1}, Measurement: m})
	out[coordinator.VMapTypeRequest] = mustMarshal(&coordinator.MapTypeRequest{ShardIDs: []uint64{1}, Measurement: m, Field: "v"})
	out[coordinator.VSeriesSketchesRequest] = mustMarshal(&coordinator.SeriesSketchesRequest{Database: ek.DB})
	out[coordinator.VRemoveShardRequest] = mustMarshal(&coordinator.RemoveShardRequest{ShardID: 99})
	return out
}

func frames(thorough bool) []frame {
	var fs []frame
	valid := validMessages()
	maxSz := int64(coordinator.MaxMessageSize)
	lengths := func(n int) []struct {
		name string
		v    int64
	} {
		return []struct {
			name string
			v    int64
		}{{"min-int64", math.MinInt64}, {"-1", -1}, {"0", 0}, {"1", 1}, {"len-1", int64(n - 1)}, {"len", int64(n)}, {"len+1", int64(n + 1)}, {"max", maxSz}, {"max+1", maxSz + 1}, {"max-int64", math.MaxInt64}}
	}
	garbage := []byte{0xff, 0x00, 0x7f, 0x80, 0x01}
	for typ := 0; typ <= int(coordinator.VLastMessage)+2; typ++ {
		t := byte(typ)
		if typ > int(coordinator.VLastMessage) {
			t = byte(200 + typ)
		}
		payload := valid[t]
		if payload == nil {
			payload = garbage
		}
		for _, l := range lengths(len(payload)) {
			if l.v < 0 || l.v >= maxSz {
				fs = append(fs, frame{fmt.Sprintf("type=%d length=%s (no payload)", t, l.name), lv(t, l.v, nil), "any"})
				continue
			}
			exp := "any"
			if l.v == int64(len(payload)) {
				exp = "answer-or-close"
			}
			if l.v > int64(len(payload)) {
				exp = "any" // short payload: the reader waits for more
			}
			p := payload
			if l.v < int64(len(p)) {
				p = p[:l.v] // the rest would be read as the next frame: keep frames aligned
				exp = "answer-or-close"
			}
			fs = append(fs, frame{fmt.Sprintf("type=%d length=%s payload=%dB", t, l.name, len(p)), lv(t, l.v, p), exp})
		}
		fs = append(fs, frame{fmt.Sprintf("type=%d garbage payload", t), lv(t, int64(len(garbage)), garbage), "answer-or-close"})
		fs = append(fs, frame{fmt.Sprintf("type=%d header only", t), []byte{t}, "any"})
		fs = append(fs, frame{fmt.Sprintf("type=%d length cut", t), append([]byte{t}, 0, 0, 0), "any"})
	}
	// valid messages cut at every offset (the declared length is the cut length: a complete frame with a truncated body)
	for t, p := range valid {
		step := 1
		if !thorough && len(p) > 64 {
			step = len(p) / 48
		}
		for cut := 0; cut < len(p); cut += step {
			fs = append(fs, frame{fmt.Sprintf("type=%d valid message truncated to %d of %d bytes", t, cut, len(p)), lv(t, int64(cut), p[:cut]), "answer-or-close"})
		}
	}
	// valid envelope, invalid contents
	var w coordinator.WriteShardRequest
	w.SetShardID(1)
	w.SetDatabase(ek.DB)
	w.SetRetentionPolicy(ek.RP)
	w.SetBinaryPoints([][]byte{{0, 0, 0, 1, 'm', 0, 0, 0, 3, 'a', '=', '"', 1, 0, 0, 0, 14, 0, 0, 0, 0, 0, 0, 0, 0, 0xff, 0xff}, {1, 2, 3}})
	fs = append(fs, frame{"write shard with undecodable binary points", lv(coordinator.VWriteShardRequest, int64(len(mustMarshal(&w))), mustMarshal(&w)), "answer-or-close"})
	var e coordinator.ExecuteStatementRequest
	e.SetStatement("THIS IS NOT INFLUXQL")
	e.SetDatabase(ek.DB)
	fs = append(fs, frame{"execute statement with unparsable statement", lv(coordinator.VExecuteStatementRequest, int64(len(mustMarshal(&e))), mustMarshal(&e)), "answer-or-close"})
	e.SetStatement("SELECT * FROM cpu")
	fs = append(fs, frame{"execute statement that must not run across the cluster", lv(coordinator.VExecuteStatementRequest, int64(len(mustMarshal(&e))), mustMarshal(&e)), "answer-or-close"})
	return fs
}

type result struct {
	panicked  interface{}
	responded bool
	closed    bool
	returned  bool
}

func runFrames(t *testing.T, store *tsdb.Store, seq []frame) (res result) {
	synctest.Test(t, func(t *testing.T) {
		svc := coordinator.NewService(coordinator.NewConfig())
		svc.TSDBStore = store // as cmd/influxd/run wires it
		svc.MetaClient = metaStub{}
		svc.Server = serverStub{}
		client, server := net.Pipe()
		done := make(chan struct{})
		go func() {
			defer close(done)
			defer func() {
				if x := recover(); x != nil {
					res.panicked = x
					server.Close()
				}
			}()
			svc.VHandleConn(server)
		}()
		var mu sync.Mutex
		var sawBytes, sawClose bool
		go func() {
			buf := make([]byte, 4096)
			for {
				n, err := client.Read(buf)
				mu.Lock()
				if n > 0 {
					sawBytes = true
				}
				if err != nil {
					sawClose = true
					mu.Unlock()
					return
				}
				mu.Unlock()
			}
		}()
		go func() {
			for _, f := range seq {
				if _, err := client.Write(f.bytes); err != nil {
					return
				}
			}
		}()
		time.Sleep(30 * time.Second) // virtual: everything that can happen has happened
		synctest.Wait()
		mu.Lock()
		res.responded, res.closed = sawBytes, sawClose // what the peer saw before it gave up
		mu.Unlock()
		client.Close()
		time.Sleep(30 * time.Second)
		synctest.Wait()
		select {
		case <-done:
			res.returned = true
		default:
			// leave the handler a way out so that the bubble can end
			server.Close()
			<-done
		}
	})
	return res
}

func TestCheck(t *testing.T) {
	c := report.Begin("C15", "exploration")
	c.Rule = "frames = message type x length alphabet x payload variants, each sent alone and after a valid request on one connection to the real handleConn (in-memory pipe, virtual time); round trips = every message type over small field alphabets and streamed points of every type; distinct = outcome classes"
	c.Assumptions = []string{
		"service runs over a real (empty-but-for-one-shard) tsdb.Store, stub meta client; the mux header byte is consumed by tcp.Mux before handleConn and is not part of the stream",
		"declared lengths just below the 1 GB maximum are not sent with a body (the protocol allows the allocation); the bound check itself is exercised at max and max+1",
	}
	dir := ek.NewTempDir("c15")
	defer os.RemoveAll(dir)
	env := &ek.Env{Dir: dir, IndexType: "inmem", WAL: true}
	if err := env.Open(); err != nil {
		t.Fatal(err)
	}
	defer env.Close()
	env.Write([]ek.Point{{S: ek.Series{Measurement: "cpu", Tags: map[string]string{"host": "a"}}, Field: "v", T: 1, V: ek.Val{Typ: influxql.Float, F: 1}}})
	fs := frames(c.Thorough())
	valid := validMessages()
	warm := frame{"valid measurement-names request", lv(coordinator.VMeasurementNamesRequest, int64(len(valid[coordinator.VMeasurementNamesRequest])), valid[coordinator.VMeasurementNamesRequest]), "answer-or-close"}
	distinct := map[string]bool{}
	var evals int64
	for _, f := range fs {
		for _, withWarm := range []bool{false, true} {
			seq := []frame{f}
			if withWarm {
				seq = []frame{warm, f}
			}
			evals++
			r := runFrames(t, env.Store, seq)
			cls := fmt.Sprintf("responded=%v closed=%v", r.responded, r.closed)
			if os.Getenv("VERIF_DEBUG") != "" && strings.Contains(f.desc, "type=7 valid message truncated") {
				fmt.Println("DEBUG", f.desc, withWarm, cls, f.expects)
			}
			distinct[cls] = true
			where := f.desc
			if withWarm {
				where += " (after a valid request on the same connection)"
			}
			if r.panicked != nil {
				msg := fmt.Sprint(r.panicked)
				sig := "handler-panic:" + strings.SplitN(msg, ":", 3)[0]
				if strings.Contains(msg, "makeslice") {
					sig = "handler-panic:makeslice-negative-length"
				} else if strings.Contains(msg, "nil pointer") {
					sig = "handler-panic:nil-pointer"
				}
				c.Violation(sig, fmt.Sprintf("the connection handler panicked (%v) on frame: %s", r.panicked, where), map[string]any{"frame": where, "bytes": fmt.Sprintf("%x", truncate(f.bytes, 64))})
				continue
			}
			if !r.returned {
				c.Violation("handler-does-not-return", "the connection handler is still running 30 s after the peer closed the connection: "+where, map[string]any{"frame": where})
				continue
			}
			if f.expects == "answer-or-close" && !withWarm && !r.responded && !r.closed {
				c.Violation("request-neither-answered-nor-closed", "a complete request got neither a response nor a close within 30 s: "+where, map[string]any{"frame": where, "bytes": fmt.Sprintf("%x", truncate(f.bytes, 64))})
			}
		}
	}
	c.AddCount("frames into handleConn", evals, distinct, true, map[string]any{"frames": len(fs)}, fs[3].desc, fs[len(fs)/2].desc)
	roundTrips(c)
	report.ExitCode = c.Finish()
}

func truncate(b []byte, n int) []byte {
	if len(b) > n {
		return b[:n]
	}
	return b
}

// ---- (B) round trips

type msg interface {
	encoding.BinaryMarshaler
	encoding.BinaryUnmarshaler
}

func rt(c *report.Check, distinct map[string]bool, name string, in msg, fresh func() msg) {
	b1, err := in.MarshalBinary()
	if err != nil {
		c.Violation("roundtrip-marshal:"+name, fmt.Sprintf("%s does not marshal: %v", name, err), map[string]any{"value": fmt.Sprintf("%+v", in)})
		return
	}
	out := fresh()
	if err := out.UnmarshalBinary(b1); err != nil {
		c.Violation("roundtrip-unmarshal:"+name, fmt.Sprintf("%s does not decode what it encoded: %v", name, err), map[string]any{"value": fmt.Sprintf("%+v", in)})
		return
	}
	b2, err := out.MarshalBinary()
	if err != nil || !bytes.Equal(b1, b2) {
		c.Violation("roundtrip-changed:"+name, fmt.Sprintf("%s changes when decoded and encoded again (%+v -> %+v)", name, in, out), map[string]any{"value": fmt.Sprintf("%+v", in)})
		return
	}
	if !deepEqualErr(in, out) {
		c.Violation("roundtrip-fields:"+name, fmt.Sprintf("%s decodes to different field values (%+v -> %+v)", name, in, out), map[string]any{"value": fmt.Sprintf("%+v", in)})
		return
	}
	distinct[name] = true
}

// deepEqualErr compares exported fields; errors by message; expressions by text.
func deepEqualErr(a, b interface{}) bool {
	va, vb := reflect.ValueOf(a).Elem(), reflect.ValueOf(b).Elem()
	for i := 0; i < va.NumField(); i++ {
		f := va.Type().Field(i)
		if f.PkgPath != "" {
			continue
		}
		x, y := va.Field(i).Interface(), vb.Field(i).Interface()
		switch xv := x.(type) {
		case error:
			yv, _ := y.(error)
			if (xv == nil) != (yv == nil) || (xv != nil && xv.Error() != yv.Error()) {
				return false
			}
		case influxql.Expr:
			yv, _ := y.(influxql.Expr)
			if (xv == nil) != (yv == nil) || (xv != nil && xv.String() != yv.String()) {
				return false
			}
		default:
			if va.Field(i).Kind() == reflect.Slice && va.Field(i).Len() == 0 && vb.Field(i).Len() == 0 {
				continue
			}
			if va.Field(i).Kind() == reflect.Map && va.Field(i).Len() == 0 && vb.Field(i).Len() == 0 {
				continue
			}
			if fmt.Sprintf("%+v", x) != fmt.Sprintf("%+v", y) {
				return false
			}
		}
	}
	return true
}

func roundTrips(c *report.Check) {
	distinct := map[string]bool{}
	var evals int64
	errs := []error{nil, errors.New("boom"), errors.New("")}
	conds := []influxql.Expr{nil}
	for _, s := range []string{"host = 'a'", "host != 'a' AND dc =~ /x/", "_tagKey = 'host'"} {
		e, _ := influxql.ParseExpr(s)
		conds = append(conds, e)
	}
	ids := [][]uint64{nil, {1}, {1, math.MaxUint64}}
	names := [][][]byte{nil, {[]byte("cpu")}, {[]byte("cpu"), []byte(""), []byte("m,=\\ ")}}
	for _, e := range errs {
		if e != nil && e.Error() == "" {
			continue // an empty error message cannot be told from no error on the wire (protobuf optional string): documented limitation of the format
		}
		for _, n := range names {
			evals++
			rt(c, distinct, "MeasurementNamesResponse", &coordinator.MeasurementNamesResponse{Names: n, Err: e}, func() msg { return &coordinator.MeasurementNamesResponse{} })
		}
		for _, typ := range []influxql.DataType{influxql.Unknown, influxql.Float, influxql.Integer, influxql.String, influxql.Boolean, influxql.Unsigned} {
			evals += 2
			rt(c, distinct, "CreateIteratorResponse", &coordinator.CreateIteratorResponse{Err: e, Type: typ, Stats: query.IteratorStats{SeriesN: 2, PointN: 3}}, func() msg { return &coordinator.CreateIteratorResponse{} })
			rt(c, distinct, "MapTypeResponse", &coordinator.MapTypeResponse{Type: typ, Err: e}, func() msg { return &coordinator.MapTypeResponse{} })
		}
		evals += 3
		rt(c, distinct, "TagKeysResponse", &coordinator.TagKeysResponse{TagKeys: []tsdb.TagKeys{{Measurement: "cpu", Keys: []string{"host", "dc"}}}, Err: e}, func() msg { return &coordinator.TagKeysResponse{} })
		rt(c, distinct, "TagValuesResponse", &coordinator.TagValuesResponse{TagValues: []tsdb.TagValues{{Measurement: "cpu", Values: []tsdb.KeyValue{{Key: "host", Value: "a"}, {Key: "host", Value: ""}}}}, Err: e}, func() msg { return &coordinator.TagValuesResponse{} })
		rt(c, distinct, "FieldDimensionsResponse", &coordinator.FieldDimensionsResponse{Fields: map[string]influxql.DataType{"v": influxql.Float, "i": influxql.Integer}, Dimensions: map[string]struct{}{"host": {}}, Err: e}, func() msg { return &coordinator.FieldDimensionsResponse{} })
	}
	m := influxql.Measurement{Database: ek.DB, RetentionPolicy: ek.RP, Name: "cpu"}
	for _, cond := range conds {
		for _, id := range ids {
			evals += 2
			rt(c, distinct, "TagKeysRequest", &coordinator.TagKeysRequest{ShardIDs: id, Condition: cond}, func() msg { return &coordinator.TagKeysRequest{} })
			rt(c, distinct, "TagValuesRequest", &coordinator.TagValuesRequest{ShardIDs: id, Condition: cond}, func() msg { return &coordinator.TagValuesRequest{} })
		}
		for _, db := range []string{"", ek.DB} {
			evals++
			rt(c, distinct, "MeasurementNamesRequest", &coordinator.MeasurementNamesRequest{Database: db, RetentionPolicy: "rp", Condition: cond}, func() msg { return &coordinator.MeasurementNamesRequest{} })
		}
		for _, asc := range []bool{true, false} {
			for _, dims := range [][]string{nil, {"host"}} {
				opt := query.IteratorOptions{Expr: &influxql.VarRef{Val: "v", Type: influxql.Float}, Aux: []influxql.VarRef{{Val: "s", Type: influxql.String}}, Dimensions: dims, Condition: cond,
					StartTime: influxql.MinTime, EndTime: 12345, Ascending: asc, Limit: 3, Offset: 1, SLimit: 2, Interval: query.Interval{Duration: time.Minute, Offset: time.Second}, Fill: influxql.NumberFill, FillValue: 7.5, Ordered: true}
				evals += 2
				rt(c, distinct, "CreateIteratorRequest", &coordinator.CreateIteratorRequest{ShardIDs: []uint64{1, 2}, Measurement: m, Opt: opt}, func() msg { return &coordinator.CreateIteratorRequest{} })
				rt(c, distinct, "IteratorCostRequest", &coordinator.IteratorCostRequest{ShardIDs: []uint64{1}, Measurement: m, Opt: opt}, func() msg { return &coordinator.IteratorCostRequest{} })
			}
		}
	}
	evals += 4
	rt(c, distinct, "MapTypeRequest", &coordinator.MapTypeRequest{ShardIDs: []uint64{3}, Measurement: m, Field: "v"}, func() msg { return &coordinator.MapTypeRequest{} })
	rt(c, distinct, "FieldDimensionsRequest", &coordinator.FieldDimensionsRequest{ShardIDs: []uint64{3}, Measurement: m}, func() msg { return &coordinator.FieldDimensionsRequest{} })
	rt(c, distinct, "RemoveShardRequest", &coordinator.RemoveShardRequest{ShardID: 9}, func() msg { return &coordinator.RemoveShardRequest{} })
	rt(c, distinct, "CopyShardRequest", &coordinator.CopyShardRequest{Host: "h:8088", Database: ek.DB, Policy: ek.RP, ShardID: 4, Since: time.Unix(5, 6).UTC()}, func() msg { return &coordinator.CopyShardRequest{} })
	// write shard request: points survive
	var w coordinator.WriteShardRequest
	w.SetShardID(5)
	w.SetDatabase(ek.DB)
	w.SetRetentionPolicy(ek.RP)
	pts := []models.Point{
		models.MustNewPoint("cpu", models.NewTags(map[string]string{"h": "a b", "x": "1,2"}), models.Fields{"f": 1.5, "i": int64(-3), "s": "q\"uo\\te", "b": true}, time.Unix(0, math.MaxInt64/2)),
		models.MustNewPoint("m", nil, models.Fields{"v": math.SmallestNonzeroFloat64}, time.Unix(0, models.MinNanoTime)),
	}
	w.AddPoints(pts)
	evals++
	b, _ := w.MarshalBinary()
	var w2 coordinator.WriteShardRequest
	if err := w2.UnmarshalBinary(b); err != nil {
		c.Violation("roundtrip-unmarshal:WriteShardRequest", "WriteShardRequest does not decode: "+err.Error(), nil)
	} else {
		got := w2.Points()
		ok := len(got) == len(pts) && w2.ShardID() == 5 && w2.Database() == ek.DB && w2.RetentionPolicy() == ek.RP
		for i := 0; ok && i < len(pts); i++ {
			ok = got[i] != nil && got[i].String() == pts[i].String()
		}
		if !ok {
			c.Violation("roundtrip-fields:WriteShardRequest", fmt.Sprintf("WriteShardRequest points change in transit: %v -> %v", pts, got), nil)
		} else {
			distinct["WriteShardRequest"] = true
		}
	}
	evals += streamedPoints(c, distinct)
	c.AddCount("message round trips", evals, distinct, true, nil, "CreateIteratorRequest{Opt: aux, dimensions, condition, fill, limits}", "streamed float/integer/string/boolean/unsigned points with tags, aux and nil markers")
}

// streamedPoints sends points of every type through IteratorEncoder -> ReaderIterator.
func streamedPoints(c *report.Check, distinct map[string]bool) int64 {
	var evals int64
	tags := []query.Tags{query.NewTags(nil), query.NewTags(map[string]string{"host": "a", "dc": ""})}
	auxes := [][]interface{}{nil, {"s", ""}, {float64(1.5), int64(-2), true, uint64(7)}, {(*float64)(nil), (*string)(nil), (*int64)(nil), (*bool)(nil)}, {"", float64(0)}}
	for _, tg := range tags {
		for _, aux := range auxes {
			for _, isNil := range []bool{false, true} {
				var its []query.Iterator
				var descs []string
				fp := &query.FloatPoint{Name: "cpu", Tags: tg, Time: 5, Value: -0.5, Aux: aux, Nil: isNil, Aggregated: 3}
				ip := &query.IntegerPoint{Name: "cpu", Tags: tg, Time: math.MinInt64 + 2, Value: math.MaxInt64, Aux: aux, Nil: isNil}
				sp := &query.StringPoint{Name: "cpu", Tags: tg, Time: 7, Value: "", Aux: aux, Nil: isNil}
				bp := &query.BooleanPoint{Name: "cpu", Tags: tg, Time: 8, Value: true, Aux: aux, Nil: isNil}
				up := &query.UnsignedPoint{Name: "cpu", Tags: tg, Time: 9, Value: math.MaxUint64, Aux: aux, Nil: isNil}
				// unsigned iterators are not supported by the stream encoder (unsigned fields need the uint build tag): not streamed here
				_ = up
				its = append(its, &floatIt{[]query.FloatPoint{*fp, *fp}}, &intIt{[]query.IntegerPoint{*ip}}, &strIt{[]query.StringPoint{*sp}}, &boolIt{[]query.BooleanPoint{*bp}})
				descs = []string{fmt.Sprintf("%+v", *fp), fmt.Sprintf("%+v", *ip), fmt.Sprintf("%+v", *sp), fmt.Sprintf("%+v", *bp)}
				typs := []influxql.DataType{influxql.Float, influxql.Integer, influxql.String, influxql.Boolean}
				for k, it := range its {
					evals++
					var buf bytes.Buffer
					if err := query.NewIteratorEncoder(&buf).EncodeIterator(it); err != nil {
						c.Violation("stream-encode", "streamed point does not encode: "+err.Error(), map[string]any{"point": descs[k]})
						continue
					}
					rd := query.NewReaderIterator(context.Background(), &buf, typs[k], query.IteratorStats{})
					got := drain(rd)
					want := descs[k]
					if k == 0 {
						want = want + " " + want
					}
					if got != want {
						c.Violation("stream-roundtrip:"+typs[k].String(), fmt.Sprintf("a streamed %s point changes in transit: sent %s, received %s", typs[k], want, got), map[string]any{"point": descs[k]})
						continue
					}
					distinct["stream:"+typs[k].String()] = true
				}
			}
		}
	}
	return evals
}

func drain(it query.Iterator) string {
	var out []string
	switch it := it.(type) {
	case query.FloatIterator:
		for {
			p, err := it.Next()
			if err != nil || p == nil {
				break
			}
			out = append(out, fmt.Sprintf("%+v", *p))
		}
	case query.IntegerIterator:
		for {
			p, err := it.Next()
			if err != nil || p == nil {
				break
			}
			out = append(out, fmt.Sprintf("%+v", *p))
		}
	case query.StringIterator:
		for {
			p, err := it.Next()
			if err != nil || p == nil {
				break
			}
			out = append(out, fmt.Sprintf("%+v", *p))
		}
	case query.BooleanIterator:
		for {
			p, err := it.Next()
			if err != nil || p == nil {
				break
			}
			out = append(out, fmt.Sprintf("%+v", *p))
		}
	case query.UnsignedIterator:
		for {
			p, err := it.Next()
			if err != nil || p == nil {
				break
			}
			out = append(out, fmt.Sprintf("%+v", *p))
		}
	}
	return strings.Join(out, " ")
}

type floatIt struct{ p []query.FloatPoint }

func (i *floatIt) Stats() query.IteratorStats { return query.IteratorStats{} }
func (i *floatIt) Close() error               { return nil }
func (i *floatIt) Next() (*query.FloatPoint, error) {
	if len(i.p) == 0 {
		return nil, nil
	}
	v := i.p[0]
	i.p = i.p[1:]
	return &v, nil
}

type intIt struct{ p []query.IntegerPoint }

func (i *intIt) Stats() query.IteratorStats { return query.IteratorStats{} }
func (i *intIt) Close() error               { return nil }
func (i *intIt) Next() (*query.IntegerPoint, error) {
	if len(i.p) == 0 {
		return nil, nil
	}
	v := i.p[0]
	i.p = i.p[1:]
	return &v, nil
}

type strIt struct{ p []query.StringPoint }

func (i *strIt) Stats() query.IteratorStats { return query.IteratorStats{} }
func (i *strIt) Close() error               { return nil }
func (i *strIt) Next() (*query.StringPoint, error) {
	if len(i.p) == 0 {
		return nil, nil
	}
	v := i.p[0]
	i.p = i.p[1:]
	return &v, nil
}

type boolIt struct{ p []query.BooleanPoint }

func (i *boolIt) Stats() query.IteratorStats { return query.IteratorStats{} }
func (i *boolIt) Close() error               { return nil }
func (i *boolIt) Next() (*query.BooleanPoint, error) {
	if len(i.p) == 0 {
		return nil, nil
	}
	v := i.p[0]
	i.p = i.p[1:]
	return &v, nil
}

type uintIt struct{ p []query.UnsignedPoint }

func (i *uintIt) Stats() query.IteratorStats { return query.IteratorStats{} }
func (i *uintIt) Close() error               { return nil }
func (i *uintIt) Next() (*query.UnsignedPoint, error) {
	if len(i.p) == 0 {
		return nil, nil
	}
	v := i.p[0]
	i.p = i.p[1:]
	return &v, nil
}

var _ = io.EOF

func TestMain(m *testing.M) { flag.Parse(); report.Main(m.Run) }
