// Package enginekit drives a real tsdb.Store / Shard / tsm1.Engine through
// small operation alphabets and compares every read with a last-write-wins
// reference model. It is shared by the storage-engine harnesses (C01, C02,
// C09, C10, C14, C18, C19).
package enginekit

import (
	"context"
	"fmt"
	"math"
	"os"
	"path/filepath"
	"sort"
	"strings"
	"time"

	"github.com/influxdata/influxdb/models"
	"github.com/influxdata/influxdb/query"
	"github.com/influxdata/influxdb/tsdb"
	_ "github.com/influxdata/influxdb/tsdb/engine"
	"github.com/influxdata/influxdb/tsdb/engine/tsm1"
	_ "github.com/influxdata/influxdb/tsdb/index"
	"github.com/influxdata/influxql"
)

// ---- reference model

// Val is a typed field value.
type Val struct {
	Typ influxql.DataType
	F   float64
	I   int64
	S   string
	B   bool
}

func (v Val) String() string {
	switch v.Typ {
	case influxql.Float:
		return fmt.Sprintf("%v", v.F)
	case influxql.Integer:
		return fmt.Sprintf("%di", v.I)
	case influxql.Unsigned:
		return fmt.Sprintf("%du", uint64(v.I))
	case influxql.String:
		return fmt.Sprintf("%q", v.S)
	case influxql.Boolean:
		return fmt.Sprintf("%v", v.B)
	}
	return "?"
}

func (v Val) iface() interface{} {
	switch v.Typ {
	case influxql.Float:
		return v.F
	case influxql.Integer:
		return v.I
	case influxql.Unsigned:
		return uint64(v.I)
	case influxql.String:
		return v.S
	case influxql.Boolean:
		return v.B
	}
	return nil
}

// Series identifies a series of the alphabet.
type Series struct {
	Measurement string
	Tags        map[string]string
}

// Key returns the canonical series key.
func (s Series) Key() string {
	return string(models.MakeKey([]byte(s.Measurement), models.NewTags(s.Tags)))
}

// Point is one field value of one series at one time.
type Point struct {
	S     Series
	Field string
	T     int64
	V     Val
}

// Model is the last-write-wins reference model of one shard.
type Model struct {
	// series key -> field -> time -> value
	Data map[string]map[string]map[int64]Val
	// measurement -> field -> type (a field keeps its type while the measurement exists in the shard)
	Types  map[string]map[string]influxql.DataType
	Series map[string]Series
}

// NewModel returns an empty model.
func NewModel() *Model {
	return &Model{Data: map[string]map[string]map[int64]Val{}, Types: map[string]map[string]influxql.DataType{}, Series: map[string]Series{}}
}

// Write applies a batch; it returns the number of points rejected for a field type conflict.
func (m *Model) Write(pts []Point) (rejected int) {
	r, _ := m.WriteA(pts)
	return r
}

// WriteA is Write; ambiguous reports that the batch gives a field that has no
// type yet two different types (the property does not say which one wins).
func (m *Model) WriteA(pts []Point) (rejected int, ambiguous bool) {
	first := map[string]influxql.DataType{}
	for _, p := range pts {
		if _, ok := m.Types[p.S.Measurement][p.Field]; ok {
			continue
		}
		k := p.S.Measurement + "#" + p.Field
		if t, ok := first[k]; ok && t != p.V.Typ {
			ambiguous = true
		}
		first[k] = p.V.Typ
	}
	for _, p := range pts {
		ft := m.Types[p.S.Measurement]
		if ft == nil {
			ft = map[string]influxql.DataType{}
			m.Types[p.S.Measurement] = ft
		}
		if t, ok := ft[p.Field]; ok && t != p.V.Typ {
			rejected++
			continue
		}
		ft[p.Field] = p.V.Typ
		k := p.S.Key()
		m.Series[k] = p.S
		if m.Data[k] == nil {
			m.Data[k] = map[string]map[int64]Val{}
		}
		if m.Data[k][p.Field] == nil {
			m.Data[k][p.Field] = map[int64]Val{}
		}
		m.Data[k][p.Field][p.T] = p.V
	}
	return rejected, ambiguous
}

// DeleteRange removes [min,max] from every field of the selected series.
func (m *Model) DeleteRange(sel func(Series) bool, min, max int64) {
	for k, fields := range m.Data {
		if !sel(m.Series[k]) {
			continue
		}
		for f, pts := range fields {
			for t := range pts {
				if t >= min && t <= max {
					delete(pts, t)
				}
			}
			if len(pts) == 0 {
				delete(fields, f)
			}
		}
		if len(fields) == 0 {
			delete(m.Data, k)
			delete(m.Series, k)
		}
	}
	m.gcTypes()
}

// gcTypes forgets field types of measurements that have no series left: the
// engine drops the measurement's field set with its last series.
func (m *Model) gcTypes() {
	live := map[string]bool{}
	for _, s := range m.Series {
		live[s.Measurement] = true
	}
	for meas := range m.Types {
		if !live[meas] {
			delete(m.Types, meas)
		}
	}
}

// Clone returns a deep copy.
func (m *Model) Clone() *Model {
	c := NewModel()
	for k, fs := range m.Data {
		c.Data[k] = map[string]map[int64]Val{}
		for f, pts := range fs {
			c.Data[k][f] = map[int64]Val{}
			for t, v := range pts {
				c.Data[k][f][t] = v
			}
		}
	}
	for me, ft := range m.Types {
		c.Types[me] = map[string]influxql.DataType{}
		for f, t := range ft {
			c.Types[me][f] = t
		}
	}
	for k, s := range m.Series {
		c.Series[k] = s
	}
	return c
}

// Dump renders the model canonically.
func (m *Model) Dump() string {
	var keys []string
	for k := range m.Data {
		keys = append(keys, k)
	}
	sort.Strings(keys)
	var b strings.Builder
	for _, k := range keys {
		var fs []string
		for f := range m.Data[k] {
			fs = append(fs, f)
		}
		sort.Strings(fs)
		for _, f := range fs {
			fmt.Fprintf(&b, "%s#%s:", k, f)
			for _, tv := range sorted(m.Data[k][f]) {
				fmt.Fprintf(&b, " %d=%s", tv.T, tv.V)
			}
			b.WriteString("\n")
		}
	}
	return b.String()
}

// TV is a (time, value) pair.
type TV struct {
	T int64
	V Val
}

func sorted(m map[int64]Val) []TV {
	out := make([]TV, 0, len(m))
	for t, v := range m {
		out = append(out, TV{t, v})
	}
	sort.Slice(out, func(i, j int) bool { return out[i].T < out[j].T })
	return out
}

// ---- the real thing

// Env is one real store with one shard.
type Env struct {
	Dir       string
	IndexType string
	Store     *tsdb.Store
	Shard     *tsdb.Shard
	Engine    *tsm1.Engine
	BlockSize int
	WAL       bool
	Configure func(*tsdb.Store)
}

const (
	DB      = "db0"
	RP      = "rp0"
	ShardID = 1
)

// Open opens (or reopens) the store in e.Dir.
func (e *Env) Open() error {
	s := tsdb.NewStore(filepath.Join(e.Dir, "data"))
	s.EngineOptions.IndexVersion = e.IndexType
	s.EngineOptions.Config.WALDir = filepath.Join(e.Dir, "wal")
	s.EngineOptions.Config.TraceLoggingEnabled = false
	s.EngineOptions.WALEnabled = e.WAL
	s.EngineOptions.Config.MaxConcurrentDeletes = 1
	if e.Configure != nil {
		e.Configure(s)
	}
	if err := s.Open(); err != nil {
		return err
	}
	e.Store = s
	if s.Shard(ShardID) == nil {
		if err := s.CreateShard(DB, RP, ShardID, true); err != nil {
			return err
		}
	}
	e.Shard = s.Shard(ShardID)
	eng, err := e.Shard.Engine()
	if err != nil {
		return err
	}
	e.Engine = eng.(*tsm1.Engine)
	if e.BlockSize > 0 {
		e.Engine.VSetBlockSize(e.BlockSize)
	}
	return nil
}

// Close closes the store.
func (e *Env) Close() error {
	if e.Store == nil {
		return nil
	}
	err := e.Store.Close()
	e.Store = nil
	return err
}

// Reopen closes and opens again.
func (e *Env) Reopen() error {
	if err := e.Close(); err != nil {
		return err
	}
	return e.Open()
}

// NewTempDir returns a fresh directory on tmpfs.
func NewTempDir(prefix string) string {
	d, err := os.MkdirTemp("/dev/shm", "verif-"+prefix+"-")
	if err != nil {
		panic(err)
	}
	return d
}

// MakePoints converts model points to real points (one real point per model point).
func MakePoints(pts []Point) []models.Point {
	out := make([]models.Point, 0, len(pts))
	for _, p := range pts {
		mp, err := models.NewPoint(p.S.Measurement, models.NewTags(p.S.Tags), models.Fields{p.Field: p.V.iface()}, time.Unix(0, p.T))
		if err != nil {
			panic(err)
		}
		out = append(out, mp)
	}
	return out
}

// Write writes a batch through the store.
func (e *Env) Write(pts []Point) error {
	return e.Store.WriteToShard(ShardID, MakePoints(pts))
}

// Snapshot flushes the cache to a TSM file.
func (e *Env) Snapshot() error { return e.Engine.WriteSnapshot() }

// DeleteWhere runs Store.DeleteSeries for one measurement ("" = all) with an InfluxQL condition ("" = none).
func (e *Env) DeleteWhere(measurement, cond string) error {
	var sources []influxql.Source
	if measurement != "" {
		sources = []influxql.Source{&influxql.Measurement{Database: DB, RetentionPolicy: RP, Name: measurement}}
	}
	var expr influxql.Expr
	if cond != "" {
		var err error
		expr, err = influxql.ParseExpr(cond)
		if err != nil {
			return err
		}
	}
	return e.Store.DeleteSeries(DB, sources, expr)
}

// ReadField reads one field of one measurement through Shard.CreateIterator,
// grouped by all tags; the result maps series key -> points in iteration order.
func (e *Env) ReadField(measurement, field string, typ influxql.DataType, tagKeys []string, start, end int64, asc bool) (map[string][]TV, error) {
	opt := query.IteratorOptions{
		Expr:       &influxql.VarRef{Val: field, Type: typ},
		Dimensions: tagKeys,
		StartTime:  start,
		EndTime:    end,
		Ascending:  asc,
		Ordered:    true,
	}
	itr, err := e.Shard.CreateIterator(context.Background(), &influxql.Measurement{Database: DB, RetentionPolicy: RP, Name: measurement}, opt)
	if err != nil {
		return nil, err
	}
	out := map[string][]TV{}
	if itr == nil {
		return out, nil
	}
	defer itr.Close()
	key := func(name string, tags query.Tags) string {
		m := tags.KeyValues()
		mt := map[string]string{}
		for k, v := range m {
			if v != "" {
				mt[k] = v
			}
		}
		return string(models.MakeKey([]byte(name), models.NewTags(mt)))
	}
	switch it := itr.(type) {
	case query.FloatIterator:
		for {
			p, err := it.Next()
			if err != nil {
				return nil, err
			}
			if p == nil {
				break
			}
			if !p.Nil {
				k := key(p.Name, p.Tags)
				out[k] = append(out[k], TV{p.Time, Val{Typ: influxql.Float, F: p.Value}})
			}
		}
	case query.IntegerIterator:
		for {
			p, err := it.Next()
			if err != nil {
				return nil, err
			}
			if p == nil {
				break
			}
			if !p.Nil {
				k := key(p.Name, p.Tags)
				out[k] = append(out[k], TV{p.Time, Val{Typ: influxql.Integer, I: p.Value}})
			}
		}
	case query.UnsignedIterator:
		for {
			p, err := it.Next()
			if err != nil {
				return nil, err
			}
			if p == nil {
				break
			}
			if !p.Nil {
				k := key(p.Name, p.Tags)
				out[k] = append(out[k], TV{p.Time, Val{Typ: influxql.Unsigned, I: int64(p.Value)}})
			}
		}
	case query.StringIterator:
		for {
			p, err := it.Next()
			if err != nil {
				return nil, err
			}
			if p == nil {
				break
			}
			if !p.Nil {
				k := key(p.Name, p.Tags)
				out[k] = append(out[k], TV{p.Time, Val{Typ: influxql.String, S: p.Value}})
			}
		}
	case query.BooleanIterator:
		for {
			p, err := it.Next()
			if err != nil {
				return nil, err
			}
			if p == nil {
				break
			}
			if !p.Nil {
				k := key(p.Name, p.Tags)
				out[k] = append(out[k], TV{p.Time, Val{Typ: influxql.Boolean, B: p.Value}})
			}
		}
	default:
		return nil, fmt.Errorf("unexpected iterator type %T", itr)
	}
	return out, nil
}

// ReadCursor reads one series field through the storage cursor path.
func (e *Env) ReadCursor(s Series, field string, start, end int64, asc bool) ([]TV, error) {
	ci, err := e.Shard.CreateCursorIterator(context.Background())
	if err != nil || ci == nil {
		return nil, err
	}
	cur, err := ci.Next(context.Background(), &tsdb.CursorRequest{Name: []byte(s.Measurement), Tags: models.NewTags(s.Tags), Field: field, Ascending: asc, StartTime: start, EndTime: end})
	if err != nil || cur == nil {
		return nil, err
	}
	defer cur.Close()
	var out []TV
	switch c := cur.(type) {
	case tsdb.FloatArrayCursor:
		for a := c.Next(); a.Len() > 0; a = c.Next() {
			for i := range a.Timestamps {
				out = append(out, TV{a.Timestamps[i], Val{Typ: influxql.Float, F: a.Values[i]}})
			}
		}
	case tsdb.IntegerArrayCursor:
		for a := c.Next(); a.Len() > 0; a = c.Next() {
			for i := range a.Timestamps {
				out = append(out, TV{a.Timestamps[i], Val{Typ: influxql.Integer, I: a.Values[i]}})
			}
		}
	case tsdb.UnsignedArrayCursor:
		for a := c.Next(); a.Len() > 0; a = c.Next() {
			for i := range a.Timestamps {
				out = append(out, TV{a.Timestamps[i], Val{Typ: influxql.Unsigned, I: int64(a.Values[i])}})
			}
		}
	case tsdb.StringArrayCursor:
		for a := c.Next(); a.Len() > 0; a = c.Next() {
			for i := range a.Timestamps {
				out = append(out, TV{a.Timestamps[i], Val{Typ: influxql.String, S: a.Values[i]}})
			}
		}
	case tsdb.BooleanArrayCursor:
		for a := c.Next(); a.Len() > 0; a = c.Next() {
			for i := range a.Timestamps {
				out = append(out, TV{a.Timestamps[i], Val{Typ: influxql.Boolean, B: a.Values[i]}})
			}
		}
	default:
		return nil, fmt.Errorf("unexpected cursor type %T", cur)
	}
	return out, cur.Err()
}

func sameVal(a, b Val) bool {
	if a.Typ != b.Typ {
		return false
	}
	if a.Typ == influxql.Float {
		return math.Float64bits(a.F) == math.Float64bits(b.F)
	}
	return a == b
}

// Range is a read range with a direction.
type Range struct {
	Start, End int64
	Asc        bool
}

// CheckReads compares every read of the shard with the model: for every
// measurement x field, every range, both directions, through the InfluxQL
// iterator path, and for every series x field through the storage cursor path.
// It returns a violation text and a signature, or empty strings.
func (e *Env) CheckReads(m *Model, universe []Series, fields map[string]influxql.DataType, ranges []Range, cursors bool) (string, string) {
	meas := map[string][]string{} // measurement -> tag keys
	for _, s := range universe {
		ks := map[string]bool{}
		for _, k := range meas[s.Measurement] {
			ks[k] = true
		}
		for k := range s.Tags {
			ks[k] = true
		}
		var l []string
		for k := range ks {
			l = append(l, k)
		}
		sort.Strings(l)
		meas[s.Measurement] = l
	}
	var mnames []string
	for n := range meas {
		mnames = append(mnames, n)
	}
	sort.Strings(mnames)
	var fnames []string
	for f := range fields {
		fnames = append(fnames, f)
	}
	sort.Strings(fnames)
	for _, mn := range mnames {
		for _, f := range fnames {
			typ, known := m.Types[mn][f]
			for _, r := range ranges {
				readTyp := typ
				if !known {
					readTyp = fields[f]
				}
				got, err := e.ReadField(mn, f, readTyp, meas[mn], r.Start, r.End, r.Asc)
				if err != nil {
					return fmt.Sprintf("read of %s.%s [%d,%d] failed: %v", mn, f, r.Start, r.End, err), "read-error"
				}
				want := map[string][]TV{}
				for k, fs := range m.Data {
					if m.Series[k].Measurement != mn {
						continue
					}
					var l []TV
					for _, tv := range sorted(fs[f]) {
						if tv.T >= r.Start && tv.T <= r.End {
							l = append(l, tv)
						}
					}
					if !r.Asc {
						for i, j := 0, len(l)-1; i < j; i, j = i+1, j-1 {
							l[i], l[j] = l[j], l[i]
						}
					}
					if len(l) > 0 {
						want[k] = l
					}
				}
				if v, s := diff("iterator", mn, f, r, got, want); v != "" {
					return v, s
				}
			}
		}
	}
	if cursors {
		for _, s := range universe {
			for _, f := range fnames {
				for _, r := range ranges {
					got, err := e.ReadCursor(s, f, r.Start, r.End, r.Asc)
					if err != nil {
						return fmt.Sprintf("cursor read of %s#%s failed: %v", s.Key(), f, err), "cursor-error"
					}
					var want []TV
					for _, tv := range sorted(m.Data[s.Key()][f]) {
						if tv.T >= r.Start && tv.T <= r.End {
							want = append(want, tv)
						}
					}
					if !r.Asc {
						for i, j := 0, len(want)-1; i < j; i, j = i+1, j-1 {
							want[i], want[j] = want[j], want[i]
						}
					}
					g, w := map[string][]TV{}, map[string][]TV{}
					if len(got) > 0 {
						g[s.Key()] = got
					}
					if len(want) > 0 {
						w[s.Key()] = want
					}
					if v, sg := diff("cursor", s.Measurement, f, r, g, w); v != "" {
						return v, sg
					}
				}
			}
		}
	}
	return "", ""
}

func diff(path, mn, f string, r Range, got, want map[string][]TV) (string, string) {
	dir := "asc"
	if !r.Asc {
		dir = "desc"
	}
	keys := map[string]bool{}
	for k := range got {
		keys[k] = true
	}
	for k := range want {
		keys[k] = true
	}
	var ks []string
	for k := range keys {
		ks = append(ks, k)
	}
	sort.Strings(ks)
	for _, k := range ks {
		g, w := got[k], want[k]
		kind := ""
		switch {
		case len(g) > len(w):
			kind = "extra-points"
		case len(g) < len(w):
			kind = "missing-points"
		default:
			for i := range g {
				if g[i].T != w[i].T {
					kind = "wrong-order-or-time"
					break
				}
				if !sameVal(g[i].V, w[i].V) {
					kind = "wrong-value"
					break
				}
			}
		}
		if kind != "" {
			return fmt.Sprintf("%s read of %s field %s range [%d,%d] %s returns %s, the last-write-wins model has %s", path, k, f, r.Start, r.End, dir, fmtTV(g), fmtTV(w)), "read:" + kind
		}
	}
	return "", ""
}

func fmtTV(l []TV) string {
	var b strings.Builder
	b.WriteString("[")
	for i, tv := range l {
		if i > 0 {
			b.WriteString(" ")
		}
		if i >= 12 {
			fmt.Fprintf(&b, "... %d more", len(l)-i)
			break
		}
		fmt.Fprintf(&b, "%d=%s", tv.T, tv.V)
	}
	b.WriteString("]")
	return b.String()
}

// ---- index listings

// Listing is what the shard reports about its series.
type Listing struct {
	Measurements []string
	TagKeys      map[string][]string            // measurement -> keys
	TagValues    map[string]map[string][]string // measurement -> key -> values
	Cardinality  int64
	Series       []string // series keys via MeasurementSeriesByExprIterator (all measurements)
}

func (l Listing) String() string {
	return fmt.Sprintf("measurements=%v tagkeys=%v tagvalues=%v cardinality=%d series=%v", l.Measurements, l.TagKeys, l.TagValues, l.Cardinality, l.Series)
}

// ModelListing computes the listing the model implies: exactly the series that still have points.
func (m *Model) ModelListing(tagKeyUniverse []string) Listing {
	l := Listing{TagKeys: map[string][]string{}, TagValues: map[string]map[string][]string{}}
	ms := map[string]bool{}
	tk := map[string]map[string]bool{}
	tv := map[string]map[string]map[string]bool{}
	for k, s := range m.Series {
		l.Series = append(l.Series, k)
		ms[s.Measurement] = true
		if tk[s.Measurement] == nil {
			tk[s.Measurement] = map[string]bool{}
			tv[s.Measurement] = map[string]map[string]bool{}
		}
		for key, val := range s.Tags {
			tk[s.Measurement][key] = true
			if tv[s.Measurement][key] == nil {
				tv[s.Measurement][key] = map[string]bool{}
			}
			tv[s.Measurement][key][val] = true
		}
	}
	for n := range ms {
		l.Measurements = append(l.Measurements, n)
	}
	sort.Strings(l.Measurements)
	sort.Strings(l.Series)
	for n, ks := range tk {
		for k := range ks {
			l.TagKeys[n] = append(l.TagKeys[n], k)
			if l.TagValues[n] == nil {
				l.TagValues[n] = map[string][]string{}
			}
			for v := range tv[n][k] {
				l.TagValues[n][k] = append(l.TagValues[n][k], v)
			}
			sort.Strings(l.TagValues[n][k])
		}
		sort.Strings(l.TagKeys[n])
	}
	l.Cardinality = int64(len(m.Series))
	return l
}

// RealListing queries the store.
func (e *Env) RealListing(tagKeyUniverse []string) (Listing, error) {
	ctx := context.Background()
	l := Listing{TagKeys: map[string][]string{}, TagValues: map[string]map[string][]string{}}
	names, err := e.Store.MeasurementNames(ctx, nil, DB, "", nil)
	if err != nil {
		return l, fmt.Errorf("MeasurementNames: %w", err)
	}
	for _, n := range names {
		l.Measurements = append(l.Measurements, string(n))
	}
	sort.Strings(l.Measurements)
	tks, err := e.Store.TagKeys(ctx, nil, []uint64{ShardID}, nil)
	if err != nil {
		return l, fmt.Errorf("TagKeys: %w", err)
	}
	for _, tk := range tks {
		ks := append([]string(nil), tk.Keys...)
		sort.Strings(ks)
		if len(ks) > 0 {
			l.TagKeys[tk.Measurement] = ks
		}
	}
	for _, key := range tagKeyUniverse {
		cond, _ := influxql.ParseExpr(fmt.Sprintf("_tagKey = '%s'", key))
		tvs, err := e.Store.TagValues(ctx, nil, []uint64{ShardID}, cond)
		if err != nil {
			return l, fmt.Errorf("TagValues: %w", err)
		}
		for _, tv := range tvs {
			for _, kv := range tv.Values {
				if l.TagValues[tv.Measurement] == nil {
					l.TagValues[tv.Measurement] = map[string][]string{}
				}
				l.TagValues[tv.Measurement][kv.Key] = append(l.TagValues[tv.Measurement][kv.Key], kv.Value)
			}
		}
	}
	for _, kv := range l.TagValues {
		for k := range kv {
			sort.Strings(kv[k])
		}
	}
	l.Cardinality, err = e.Store.SeriesCardinality(ctx, DB)
	if err != nil {
		return l, fmt.Errorf("SeriesCardinality: %w", err)
	}
	idx, err := e.Shard.Index()
	if err != nil {
		return l, err
	}
	sfile, err := e.Shard.SeriesFile()
	if err != nil {
		return l, err
	}
	is := tsdb.IndexSet{Indexes: []tsdb.Index{idx}, SeriesFile: sfile}
	for _, n := range names {
		itr, err := is.MeasurementSeriesByExprIterator(n, nil)
		if err != nil {
			return l, fmt.Errorf("MeasurementSeriesByExprIterator: %w", err)
		}
		if itr == nil {
			continue
		}
		for {
			el, err := itr.Next()
			if err != nil {
				itr.Close()
				return l, err
			}
			if el.SeriesID == 0 {
				break
			}
			name, tags := sfile.Series(el.SeriesID)
			if name == nil {
				continue
			}
			l.Series = append(l.Series, string(models.MakeKey(name, tags)))
		}
		itr.Close()
	}
	sort.Strings(l.Series)
	return l, nil
}

// CheckListings compares the listings of the shard with the model.
func (e *Env) CheckListings(m *Model, tagKeyUniverse []string) (string, string) {
	v, s, _ := e.CheckListingsTolerant(m, tagKeyUniverse, false)
	return v, s
}

// CheckListingsTolerant is CheckListings; with tolerate set, tag values that
// linger after their last series was removed (while the measurement lives on)
// are reported through soft and masked, so the other comparisons still run.
func (e *Env) CheckListingsTolerant(m *Model, tagKeyUniverse []string, tolerate bool) (viol, sig, soft string) {
	want := m.ModelListing(tagKeyUniverse)
	got, err := e.RealListing(tagKeyUniverse)
	if err != nil {
		return "listing failed: " + err.Error(), "listing-error", ""
	}
	if tolerate {
		for mn, kv := range got.TagValues {
			if _, live := want.TagKeys[mn]; !live {
				continue
			}
			for k, vs := range kv {
				ws := map[string]bool{}
				for _, x := range want.TagValues[mn][k] {
					ws[x] = true
				}
				var keep []string
				for _, x := range vs {
					if ws[x] {
						keep = append(keep, x)
					} else if soft == "" {
						soft = fmt.Sprintf("tag value %s.%s=%q is listed although its last series was removed (other series of the measurement remain)", mn, k, x)
					}
				}
				kv[k] = keep
			}
		}
	}
	v, s := compareListings(got, want, tagKeyUniverse)
	return v, s, soft
}

func compareListings(got, want Listing, tagKeyUniverse []string) (string, string) {
	cmp := func(what string, g, w []string) (string, string) {
		gs, ws := map[string]bool{}, map[string]bool{}
		for _, x := range g {
			gs[x] = true
		}
		for _, x := range w {
			ws[x] = true
		}
		for _, x := range w {
			if !gs[x] {
				return fmt.Sprintf("%s: %q has points in the shard but is not listed (listed %v)", what, x, g), "listing:missing-" + strings.SplitN(what, " ", 2)[0]
			}
		}
		for _, x := range g {
			if !ws[x] {
				return fmt.Sprintf("%s: %q is listed although all of its points were removed (expected %v)", what, x, w), "listing:lingering-" + strings.SplitN(what, " ", 2)[0]
			}
		}
		return "", ""
	}
	if v, s := cmp("measurement names", got.Measurements, want.Measurements); v != "" {
		return v, s
	}
	if v, s := cmp("series of the index", got.Series, want.Series); v != "" {
		return v, s
	}
	for _, mn := range want.Measurements {
		if v, s := cmp("tagkey list of "+mn, got.TagKeys[mn], want.TagKeys[mn]); v != "" {
			return v, s
		}
		for _, k := range tagKeyUniverse {
			if v, s := cmp("tagvalue list of "+mn+"."+k, got.TagValues[mn][k], want.TagValues[mn][k]); v != "" {
				return v, s
			}
		}
	}
	for mn := range got.TagKeys {
		if _, ok := want.TagKeys[mn]; !ok && len(got.TagKeys[mn]) > 0 {
			return fmt.Sprintf("tag keys are listed for measurement %q which has no points left", mn), "listing:lingering-tagkey"
		}
	}
	for mn, kv := range got.TagValues {
		for k, vs := range kv {
			if len(vs) > 0 && len(want.TagValues[mn][k]) == 0 {
				return fmt.Sprintf("tag values %v are listed for %s.%s which has no points left", vs, mn, k), "listing:lingering-tagvalue"
			}
		}
	}
	if got.Cardinality != want.Cardinality {
		kind := "high"
		if got.Cardinality < want.Cardinality {
			kind = "low"
		}
		return fmt.Sprintf("series cardinality is %d, %d series have points", got.Cardinality, want.Cardinality), "listing:cardinality-" + kind
	}
	return "", ""
}
