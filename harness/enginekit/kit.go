// Package enginekit drives a real tsdb.Store / Shard / tsm1.Engine through
// small operation alphabets and compares every read with a last-write-wins
// reference model. It is shared by the storage-engine harnesses (C01, C02,
// C09, C10, C14, C18, C19).
package enginekit

import (
	"context"
	"fmt"
	"math"
	"os"
	"path/filepath"
	"sort"
	"strings"
	"time"

	"github.com/influxdata/influxdb/models"
	"github.com/influxdata/influxdb/query"
	"github.com/influxdata/influxdb/tsdb"
	_ "github.com/influxdata/influxdb/tsdb/engine"
	"github.com/influxdata/influxdb/tsdb/engine/tsm1"
	_ "github.com/influxdata/influxdb/tsdb/index"
	"github.com/influxdata/influxql"
)

// ---- reference model

// Val is a typed field value.
type Val struct {
	Typ influxql.DataType
	F   float64
	I   int64
	S   string
	B   bool
}

func (v Val) String() string {
	switch v.Typ {
	case influxql.Float:
		return fmt.Sprintf("%v", v.F)
	case influxql.Integer:
		return fmt.Sprintf("%di", v.I)
	case influxql.Unsigned:
		return fmt.Sprintf("%du", uint64(v.I))
	case influxql.String:
		return fmt.Sprintf("%q", v.S)
	case influxql.Boolean:
		return fmt.Sprintf("%v", v.B)
	}
	return "?"
}

func (v Val) iface() interface{} {
	switch v.Typ {
	case influxql.Float:
		return v.F
	case influxql.Integer:
		return v.I
	case influxql.Unsigned:
		return uint64(v.I)
	case influxql.String:
		return v.S
	case influxql.Boolean:
		return v.B
	}
	return nil
}

// Series identifies a series of the alphabet.
type Series struct {
	Measurement string
	Tags        map[string]string
}

// Key returns the canonical series key.
func (s Series) Key() string {
	return string(models.MakeKey([]byte(s.Measurement), models.NewTags(s.Tags)))
}

// Point is one field value of one series at one time.
type Point struct {
	S     Series
	Field string
	T     int64
	V     Val
}

// Model is the last-write-wins reference model of one shard.
type Model struct {
	// series key -> field -> time -> value
	Data map[string]map[string]map[int64]Val
	// measurement -> field -> type (a field keeps its type while the measurement exists in the shard)
	Types  map[string]map[string]influxql.DataType
	Series map[string]Series
}

// NewModel returns an empty model.
func NewModel() *Model {
	return &Model{Data: map[string]map[string]map[int64]Val{}, Types: map[string]map[string]influxql.DataType{}, Series: map[string]Series{}}
}

// Write applies a batch; it returns the number of points rejected for a field type conflict.
func (m *Model) Write(pts []Point) (rejected int) {
	r, _ := m.WriteA(pts)
	return r
}

// WriteA is Write; ambiguous reports that the batch gives a field that has no
// type yet two different types (the property does not say which one wins).
func (m *Model) WriteA(pts []Point) (rejected int, ambiguous bool) {
	first := map[string]influxql.DataType{}
	for _, p := range pts {
		if _, ok := m.Types[p.S.Measurement][p.Field]; ok {
			continue
		}
		k := p.S.Measurement + "#" + p.Field
		if t, ok := first[k]; ok && t != p.V.Typ {
			ambiguous = true
		}
		first[k] = p.V.Typ
	}
	for _, p := range pts {
		ft := m.Types[p.S.Measurement]
		if ft == nil {
			ft = map[string]influxql.DataType{}
			m.Types[p.S.Measurement] = ft
		}
		if t, ok := ft[p.Field]; ok && t != p.V.Typ {
			rejected++
			continue
		}
		ft[p.Field] = p.V.Typ
		k := p.S.Key()
		m.Series[k] = p.S
		if m.Data[k] == nil {
			m.Data[k] = map[string]map[int64]Val{}
		}
		if m.Data[k][p.Field] == nil {
			m.Data[k][p.Field] = map[int64]Val{}
		}
		m.Data[k][p.Field][p.T] = p.V
	}
	return rejected, ambiguous
}

// DeleteRange removes [min,max] from every field of the selected series.
func (m *Model) DeleteRange(sel func(Series) bool, min, max int64) {
	for k, fields := range m.Data {
		if !sel(m.Series[k]) {
			continue
		}
		for f, pts := range fields {
			for t := range pts {
				if t >= min && t <= max {
					delete(pts, t)
				}
			}
			if len(pts) == 0 {
				delete(fields, f)
			}
		}
		if len(fields) == 0 {
			delete(m.Data, k)
			delete(m.Series, k)
		}
	}
	m.gcTypes()
}

// gcTypes forgets field types of measurements that have no series left: the
// engine drops the measurement's field set with its last series.
func (m *Model) gcTypes() {
	live := map[string]bool{}
	for _, s := range m.Series {
		live[s.Measurement] = true
	}
	for meas := range m.Types {
		if !live[meas] {
			delete(m.Types, meas)
		}
	}
}

// Clone returns a deep copy.
func (m *Model) Clone() *Model {
	c := NewModel()
	for k, fs := range m.Data {
		c.Data[k] = map[string]map[int64]Val{}
		for f, pts := range fs {
			c.Data[k][f] = map[int64]Val{}
			for t, v := range pts {
				c.Data[k][f][t] = v
			}
		}
	}
	for me, ft := range m.Types {
		c.Types[me] = map[string]influxql.DataType{}
		for f, t := range ft {
			c.Types[me][f] = t
		}
	}
	for k, s := range m.Series {
		c.Series[k] = s
	}
	return c
}

// Dump renders the model canonically.
func (m *Model) Dump() string {
	var keys []string
	for k := range m.Data {
		keys = append(keys, k)
	}
	sort.Strings(keys)
	var b strings.Builder
	for _, k := range keys {
		var fs []string
		for f := range m.Data[k] {
			fs = append(fs, f)
		}
		sort.Strings(fs)
		for _, f := range fs {
			fmt.Fprintf(&b, "%s#%s:", k, f)
			for _, tv := range sorted(m.Data[k][f]) {
				fmt.Fprintf(&b, " %d=%s", tv.T, tv.V)
			}
			b.WriteString("\n")
		}
	}
	return b.String()
}

// TV is a (time, value) pair.
type TV struct {
	T int64
	V Val
}

func sorted(m map[int64]Val) []TV {
	out := make([]TV, 0, len(m))
	for t, v := range m {
		out = append(out, TV{t, v})
	}
	sort.Slice(out, func(i, j int) bool { return out[i].T < out[j].T })
	return out
}

// ---- the real thing

// Env is one real store with one shard.
type Env struct {
	Dir       string
	IndexType string
	Store     *tsdb.Store
	Shard     *tsdb.Shard
	Engine    *tsm1.Engine
	BlockSize int
	WAL       bool
	Configure func(*tsdb.Store)
}

const (
	DB      = "db0"
	RP      = "rp0"
	ShardID = 1
)

// Open opens (or reopens) the store in e.Dir.
func (e *Env) Open() error {
	s := tsdb.NewStore(filepath.Join(e.Dir, "data"))
	s.EngineOptions.IndexVersion = e.IndexType
	s.EngineOptions.Config.WALDir = filepath.Join(e.Dir, "wal")
	s.EngineOptions.Config.TraceLoggingEnabled = false
	s.EngineOptions.WALEnabled = e.WAL
	s.EngineOptions.Config.MaxConcurrentDeletes = 1
	if e.Configure != nil {
		e.Configure(s)
	}
	if err := s.Open(); err != nil {
		return err
	}
	e.Store = s
	if s.Shard(ShardID) == nil {
		if err := s.CreateShard(DB, RP, ShardID, true); err != nil {
			return err
		}
	}
	e.Shard = s.Shard(ShardID)
	eng, err := e.Shard.Engine()
	if err != nil {
		return err
	}
	e.Engine = eng.(*tsm1.Engine)
	if e.BlockSize > 0 {
		e.Engine.VSetBlockSize(e.BlockSize)
	}
	return nil
}

// Close closes the store.
func (e *Env) Close() error {
	if e.Store == nil {
		return nil
	}
	err := e.Store.Close()
	e.Store = nil
	return err
}

// Reopen closes and opens again.
func (e *Env) Reopen() error {
	if err := e.Close(); err != nil {
		return err
	}
	return e.Open()
}

// NewTempDir returns a fresh directory on tmpfs.
func NewTempDir(prefix string) string {
	d, err := os.MkdirTemp("/dev/shm", "verif-"+prefix+"-")
	if err != nil {
		panic(err)
	}
	return d
}

// MakePoints converts model points to real points (one real point per model point).
func MakePoints(pts []Point) []models.Point {
	out := make([]models.Point, 0, len(pts))
	for _, p := range pts {
		mp, err := models.NewPoint(p.S.Measurement, models.NewTags(p.S.Tags), models.Fields{p.Field: p.V.iface()}, time.Unix(0, p.T))
		if err != nil {
			panic(err)
		}
		out = append(out, mp)
	}
	return out
}

// Write writes a batch through the store.
func (e *Env) Write(pts []Point) error {
	return e.Store.WriteToShard(ShardID, MakePoints(pts))
}

// Snapshot flushes the cache to a TSM file.
func (e *Env) Snapshot() error { return e.Engine.WriteSnapshot() }

// DeleteWhere runs Store.DeleteSeries for one measurement ("" = all) with an InfluxQL condition ("" = none).
func (e *Env) DeleteWhere(measurement, cond string) error {
	var sources []influxql.Source
	if measurement != "" {
		sources = []influxql.Source{&influxql.Measurement{Database: DB, RetentionPolicy: RP, Name: measurement}}
	}
	var expr influxql.Expr
	if cond != "" {
		var err error
		expr, err = influxql.ParseExpr(cond)
		if err != nil {
			return err
		}
	}
	return e.Store.DeleteSeries(DB, sources, expr)
}

// ReadField reads one field of one measurement through Shard.CreateIterator,
// grouped by all tags; the result maps series key -> points in iteration order.
func (e *Env) ReadField(measurement, field string, typ influxql.DataType, tagKeys []string, start, end int64, asc bool) (map[string][]TV, error) {
	opt := query.IteratorOptions{
		Expr:       &influxql.VarRef{Val: field, Type: typ},
		Dimensions: tagKeys,
		StartTime:  start,
		EndTime:    end,
		Ascending:  asc,
		Ordered:    true,
	}
	itr, err := e.Shard.CreateIterator(context.Background(), &influxql.Measurement{Database: DB, RetentionPolicy: RP, Name: measurement}, opt)
	if err != nil {
		return nil, err
	}
	out := map[string][]TV{}
	if itr == nil {
		return out, nil
	}
	defer itr.Close()
	key := func(name string, tags query.Tags) string {
		m := tags.KeyValues()
		mt := map[string]string{}
		for k, v := range m {
			if v != "" {
				mt[k] = v
			}
		}
		return string(models.MakeKey([]byte(name), models.NewTags(mt)))
	}
	switch it := itr.(type) {
	case query.FloatIterator:
		for {
			p, err := it.Next()
			if err != nil {
				return nil, err
			}
			if p == nil {
				break
			}
			if !p.Nil {
				k := key(p.Name, p.Tags)
				out[k] = append(out[k], TV{p.Time, Val{Typ: influxql.Float, F: p.Value}})
			}
		}
	case query.IntegerIterator:
		for {
			p, err := it.Next()
			if err != nil {
				return nil, err
			}
			if p == nil {
				break
			}
			if !p.Nil {
				k := key(p.Name, p.Tags)
				out[k] = append(out[k], TV{p.Time, Val{Typ: influxql.Integer, I: p.Value}})
			}
		}
	case query.UnsignedIterator:
		for {
			p, err := it.Next()
			if err != nil {
				return nil, err
			}
			if p == nil {
				break
			}
			if !p.Nil {
				k := key(p.Name, p.Tags)
				out[k] = append(out[k], TV{p.Time, Val{Typ: influxql.Unsigned, I: int64(p.Value)}})
			}
		}
	case query.StringIterator:
		for {
			p, err := it.Next()
			if err != nil {
				return nil, err
			}
			if p == nil {
				break
			}
			if !p.Nil {
				k := key(p.Name, p.Tags)
				out[k] = append(out[k], TV{p.Time, Val{Typ: influxql.String, S: p.Value}})
			}
		}
	case query.BooleanIterator:
		for {
			p, err := it.Next()
			if err != nil {
				return nil, err
			}
			if p == nil {
				break
			}
			if !p.Nil {
				k := key(p.Name, p.Tags)
				out[k] = append(out[k], TV{p.Time, Val{Typ: influxql.Boolean, B: p.Value}})
			}
		}
	default:
		return nil, fmt.Errorf("unexpected iterator type %T", itr)
	}
	return out, nil
}

// ReadCursor reads one series field through the storage cursor path.
func (e *Env) ReadCursor(s Series, field string, start, end int64, asc bool) ([]TV, error) {
	ci, err := e.Shard.CreateCursorIterator(context.Background())
	if err != nil || ci == nil {
		return nil, err
	}
	cur, err := ci.Next(context.Background(), &tsdb.CursorRequest{Name: []byte(s.Measurement), Tags: models.NewTags(s.Tags), Field: field, Ascending: asc, StartTime: start, EndTime: end})
	if err != nil || cur == nil {
		return nil, err
	}
	defer cur.Close()
	var out []TV
	switch c := cur.(type) {
	case tsdb.FloatArrayCursor:
		for a := c.Next(); a.Len() > 0; a = c.Next() {
			for i := range a.Timestamps {
				out = append(out, TV{a.Timestamps[i], Val{Typ: influxql.Float, F: a.Values[i]}})
			}
		}
	case tsdb.IntegerArrayCursor:
		for a := c.Next(); a.Len() > 0; a = c.Next() {
			for i := range a.Timestamps {
				out = append(out, TV{a.Timestamps[i], Val{Typ: influxql.Integer, I: a.Values[i]}})
			}
		}
	case tsdb.UnsignedArrayCursor:
		for a := c.Next(); a.Len() > 0; a = c.Next() {
			for i := range a.Timestamps {
				out = append(out, TV{a.Timestamps[i], Val{Typ: influxql.Unsigned, I: int64(a.Values[i])}})
			}
		}
	case tsdb.StringArrayCursor:
		for a := c.Next(); a.Len() > 0; a = c.Next() {
			for i := range a.Timestamps {
				out = append(out, TV{a.Timestamps[i], Val{Typ: influxql.String, S: a.Values[i]}})
			}
		}
	case tsdb.BooleanArrayCursor:
		for a := c.Next(); a.Len() > 0; a = c.Next() {
			for i := range a.Timestamps {
				out = append(out, TV{a.Timestamps[i], Val{Typ: influxql.Boolean, B: a.Values[i]}})
			}
		}
	default:
		return nil, fmt.Errorf("unexpected cursor type %T", cur)
	}
	return out, cur.Err()
}

func sameVal(a, b Val) bool {
	if a.Typ != b.Typ {
		return false
	}
	if a.Typ == influxql.Float {
		return math.Float64bits(a.F) == math.Float64bits(b.F)
	}
	return a == b
}

// Range is a read range with a direction.
type Range struct {
	Start, End int64
	Asc        bool
}

// CheckReads compares every read of the shard with the model: for every
// measurement x field, every range, both directions, through the InfluxQL
// iterator path, and for every series x field through the storage cursor path.
// It returns a violation text and a signature, or empty strings.
func (e *Env) CheckReads(m *Model, universe []Series, fields map[string]influxql.DataType, ranges []Range, cursors bool) (string, string) {
	meas := map[string][]string{} // measurement -> tag keys
	for _, s := range universe {
		ks := map[string]bool{}
		for _, k := range meas[s.Measurement] {
			ks[k] = true
		}
		for k := range s.Tags {
			ks[k] = true
		}
		var l []string
		for k := range ks {
			l = append(l, k)
		}
		sort.Strings(l)
		meas[s.Measurement] = l
	}
	var mnames []string
	for n := range meas {
		mnames = append(mnames, n)
	}
	sort.Strings(mnames)
	var fnames []string
	for f := range fields {
		fnames = append(fnames, f)
	}
	sort.Strings(fnames)
	for _, mn := range mnames {
		for _, f := range fnames {
			typ, known := m.Types[mn][f]
			for _, r := range ranges {
				readTyp := typ
				if !known {
					readTyp = fields[f]
				}
				got, err := e.ReadField(mn, f, readTyp, meas[mn], r.Start, r.End, r.Asc)
				if err != nil {
					return fmt.Sprintf("read of %s.%s [%d,%d] failed: %v", mn, f, r.Start, r.End, err), "read-error"
				}
				want := map[string][]TV{}
				for k, fs := range m.Data {
					if m.Series[k].Measurement != mn {
						continue
					}
					var l []TV
					for _, tv := range sorted(fs[f]) {
						if tv.T >= r.Start && tv.T <= r.End {
							l = append(l, tv)
						}
					}
					if !r.Asc {
						for i, j := 0, len(l)-1; i < j; i, j = i+1, j-1 {
							l[i], l[j] = l[j], l[i]
						}
					}
					if len(l) > 0 {
						want[k] = l
					}
				}
				if v, s := diff("iterator", mn, f, r, got, want); v != "" {
					return v, s
				}
			}
		}
	}
	if cursors {
		for _, s := range universe {
			for _, f := range fnames {
				for _, r := range ranges {
					got, err := e.ReadCursor(s, f, r.Start, r.End, r.Asc)
					if err != nil {
						return fmt.Sprintf("cursor read of %s#%s failed: %v", s.Key(), f, err), "cursor-error"
					}
					var want []TV
					for _, tv := range sorted(m.Data[s.Key()][f]) {
						if tv.T >= r.Start && tv.T <= r.End {
							want = append(want, tv)
						}
					}
					if !r.Asc {
						for i, j := 0, len(want)-1; i < j; i, j = i+1, j-1 {
							want[i], want[j] = want[j], want[i]
						}
					}
					g, w := map[string][]TV{}, map[string][]TV{}
					if len(got) > 0 {
						g[s.Key()] = got
					}
					if len(want) > 0 {
						w[s.Key()] = want
					}
					if v, sg := diff("cursor", s.Measurement, f, r, g, w); v != "" {
						return v, sg
					}
				}
			}
		}
	}
	return "", ""
}

func diff(path, mn, f string, r Range, got, want map[string][]TV) (string, string) {
	dir := "asc"
	if !r.Asc {
		dir = "desc"
	}
	keys := map[string]bool{}
	for k := range got {
		keys[k] = true
	}
	for k := range want {
		keys[k] = true
	}
	var ks []string
	for k := range keys {
		ks = append(ks, k)
	}
	sort.Strings(ks)
	for _, k := range ks {
		g, w := got[k], want[k]
		kind := ""
		switch {
		case len(g) > len(w):
			kind = "extra-points"
		case len(g) < len(w):
			kind = "missing-points"
		default:
			for i := range g {
				if g[i].T != w[i].T {
					kind = "wrong-order-or-time"
					break
				}
				if !sameVal(g[i].V, w[i].V) {
					kind = "wrong-value"
					break
				}
			}
		}
		if kind != "" {
			return fmt.Sprintf("%s read of %s field %s range [%d,%d] %s returns %s, the last-write-wins model has %s", path, k, f, r.Start, r.End, dir, fmtTV(g), fmtTV(w)), "read:" + kind
		}
	}
	return "", ""
}

func fmtTV(l []TV) string {
	var b strings.Builder
	b.WriteString("[")
	for i, tv := range l {
		if i > 0 {
			b.WriteString(" ")
		}
		if i >= 12 {
			fmt.Fprintf(&b, "... %d more", len(l)-i)
			break
		}
		fmt.Fprintf(&b, "%d=%s", tv.T, tv.V)
	}
	b.WriteString("]")
	return b.String()
}
