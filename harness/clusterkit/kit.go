// Package clusterkit builds an in-process cluster of real data-node components
// (tsdb.Store, coordinator.Service, MetaExecutor, ShardWriter, PointsWriter,
// ClusterShardMapper) over an in-memory transport, sharing one fake meta client
// that is a thin view over a real meta.Data. It must be used inside a synctest
// bubble (virtual timeouts).
package clusterkit

import (
	"bytes"
	"context"
	"errors"
	"fmt"
	"net"
	"os"
	"path/filepath"
	"sort"
	"strings"
	"sync"
	"time"

	"github.com/influxdata/influxdb/coordinator"
	"github.com/influxdata/influxdb/models"
	"github.com/influxdata/influxdb/pkg/vtcp"
	"github.com/influxdata/influxdb/query"
	"github.com/gogo/protobuf/types"
	"github.com/influxdata/influxdb/services/meta"
	"github.com/influxdata/influxdb/services/storage"
	"github.com/influxdata/influxdb/tsdb/cursors"
	"github.com/influxdata/influxdb/storage/reads/datatypes"
	"github.com/influxdata/influxdb/tsdb"
	_ "github.com/influxdata/influxdb/tsdb/engine"
	"github.com/influxdata/influxdb/tsdb/engine/tsm1"
	_ "github.com/influxdata/influxdb/tsdb/index"
	"github.com/influxdata/influxql"
)

const (
	DB = "db0"
	RP = "rp0"
)

// Fault describes how a node misbehaves for incoming inter-node connections.
type Fault struct {
	Down                  bool // listener closed: connection refused
	Mute                  bool // accepts, never answers (timeouts elapse on the virtual clock)
	WriteBudget           int  // >0: the node's side of every connection dies after writing this many bytes
	ErrorOnCreateIterator bool // answers CreateIterator with an error reply (store wrapper)
	ErrorOnMetadata       bool // answers tag key / tag value / measurement name / field lookups with an error reply
}

// Cluster is a set of nodes sharing metadata.
type Cluster struct {
	mu    sync.Mutex
	Data  *meta.Data
	Nodes []*Node
	Dir   string
	// Served logs which node served which shards for which request kind.
	Served []string
}

// Node is one data node.
type Node struct {
	ID      uint64
	Addr    string
	Store   *tsdb.Store
	Svc     *coordinator.Service
	ME      *coordinator.MetaExecutor
	SW      *coordinator.ShardWriter
	PW      *coordinator.PointsWriter
	Mapper  *coordinator.ClusterShardMapper
	Fault   Fault
	cluster *Cluster
}

// fakeMeta is the per-node view of the shared metadata.
type fakeMeta struct {
	coordinator.MetaClient // unimplemented methods panic loudly (nil interface)
	c                      *Cluster
	id                     uint64
}

func (f *fakeMeta) NodeID() uint64 { return f.id }
func (f *fakeMeta) Database(name string) *meta.DatabaseInfo {
	f.c.mu.Lock()
	defer f.c.mu.Unlock()
	return f.c.Data.Database(name)
}
func (f *fakeMeta) Databases() []meta.DatabaseInfo {
	f.c.mu.Lock()
	defer f.c.mu.Unlock()
	return f.c.Data.CloneDatabases()
}
func (f *fakeMeta) RetentionPolicy(db, rp string) (*meta.RetentionPolicyInfo, error) {
	f.c.mu.Lock()
	defer f.c.mu.Unlock()
	return f.c.Data.RetentionPolicy(db, rp)
}
func (f *fakeMeta) CreateShardGroup(db, rp string, ts time.Time) (*meta.ShardGroupInfo, error) {
	f.c.mu.Lock()
	defer f.c.mu.Unlock()
	if sg, _ := f.c.Data.ShardGroupByTimestamp(db, rp, ts); sg != nil {
		return sg, nil
	}
	f.c.Data.Index++
	if err := f.c.Data.CreateShardGroup(db, rp, ts); err != nil {
		return nil, err
	}
	rpi, err := f.c.Data.RetentionPolicy(db, rp)
	if err != nil {
		return nil, err
	}
	return rpi.ShardGroupByTimestamp(ts), nil
}
func (f *fakeMeta) ShardGroupsByTimeRange(db, rp string, min, max time.Time) ([]meta.ShardGroupInfo, error) {
	f.c.mu.Lock()
	defer f.c.mu.Unlock()
	return f.c.Data.ShardGroupsByTimeRange(db, rp, min, max)
}
func (f *fakeMeta) DataNode(id uint64) (*meta.NodeInfo, error) {
	f.c.mu.Lock()
	defer f.c.mu.Unlock()
	if n := f.c.Data.DataNode(id); n != nil {
		c := *n
		return &c, nil
	}
	return nil, meta.ErrNodeNotFound
}
func (f *fakeMeta) DataNodes() []meta.NodeInfo {
	f.c.mu.Lock()
	defer f.c.mu.Unlock()
	return append([]meta.NodeInfo(nil), f.c.Data.DataNodes...)
}
func (f *fakeMeta) DataNodeByTCPAddr(addr string) (*meta.NodeInfo, error) {
	f.c.mu.Lock()
	defer f.c.mu.Unlock()
	for _, n := range f.c.Data.DataNodes {
		if n.TCPAddr == addr {
			c := n
			return &c, nil
		}
	}
	return nil, meta.ErrNodeNotFound
}
func (f *fakeMeta) ShardOwner(shardID uint64) (string, string, *meta.ShardGroupInfo) {
	f.c.mu.Lock()
	defer f.c.mu.Unlock()
	for _, db := range f.c.Data.Databases {
		for _, rp := range db.RetentionPolicies {
			for i := range rp.ShardGroups {
				for _, s := range rp.ShardGroups[i].Shards {
					if s.ID == shardID {
						g := rp.ShardGroups[i]
						return db.Name, rp.Name, &g
					}
				}
			}
		}
	}
	return "", "", nil
}
func (f *fakeMeta) MetaServers() []string     { return nil }
func (f *fakeMeta) SetMetaServers(a []string) {}
func (f *fakeMeta) CreateDataNode(h, t string) (*meta.NodeInfo, error) {
	return nil, errors.New("not supported")
}
func (f *fakeMeta) Status() (*meta.MetaNodeStatus, error) { return nil, errors.New("not supported") }
func (f *fakeMeta) Save() error                           { return nil }

type serverStub struct{ addr string }

func (s serverStub) Reset() error       { return nil }
func (s serverStub) HTTPAddr() string   { return "http-" + s.addr }
func (s serverStub) HTTPScheme() string { return "http" }
func (s serverStub) TCPAddr() string    { return s.addr }

type noHH struct{}

func (noHH) WriteShard(shardID, ownerID uint64, points []models.Point) error {
	return errors.New("hinted handoff disabled in this harness")
}
func (noHH) Empty(shardID, ownerID uint64) bool { return true }

// nodeStore is the store the node's coordinator service sees: it logs which
// shards the node is asked to read and injects iterator-creation errors.
type nodeStore struct {
	*tsdb.Store
	n *Node
}

func (s nodeStore) ShardGroup(ids []uint64) tsdb.ShardGroup {
	s.n.cluster.mu.Lock()
	s.n.cluster.Served = append(s.n.cluster.Served, fmt.Sprintf("node%d:%v", s.n.ID, ids))
	fail := s.n.Fault.ErrorOnCreateIterator
	s.n.cluster.mu.Unlock()
	g := s.Store.ShardGroup(ids)
	if fail {
		return failingGroup{g}
	}
	return g
}

func (s nodeStore) metaFault() error {
	s.n.cluster.mu.Lock()
	defer s.n.cluster.mu.Unlock()
	if s.n.Fault.ErrorOnMetadata {
		return errors.New("injected: index unavailable")
	}
	return nil
}

func (s nodeStore) TagKeys(ctx context.Context, auth query.FineAuthorizer, shardIDs []uint64, cond influxql.Expr) ([]tsdb.TagKeys, error) {
	if err := s.metaFault(); err != nil {
		return nil, err
	}
	return s.Store.TagKeys(ctx, auth, shardIDs, cond)
}

func (s nodeStore) TagValues(ctx context.Context, auth query.FineAuthorizer, shardIDs []uint64, cond influxql.Expr) ([]tsdb.TagValues, error) {
	if err := s.metaFault(); err != nil {
		return nil, err
	}
	return s.Store.TagValues(ctx, auth, shardIDs, cond)
}

func (s nodeStore) MeasurementNames(ctx context.Context, auth query.FineAuthorizer, database string, retentionPolicy string, cond influxql.Expr) ([][]byte, error) {
	if err := s.metaFault(); err != nil {
		return nil, err
	}
	return s.Store.MeasurementNames(ctx, auth, database, retentionPolicy, cond)
}

// budgetConn lets only a number of bytes out of the node.
type budgetConn struct {
	net.Conn
	left int
}

func (b *budgetConn) Write(p []byte) (int, error) {
	if b.left <= 0 {
		b.Conn.Close()
		return 0, errors.New("connection reset by peer")
	}
	if len(p) > b.left {
		n, _ := b.Conn.Write(p[:b.left])
		b.left = 0
		b.Conn.Close()
		return n, errors.New("connection reset by peer")
	}
	b.left -= len(p)
	return b.Conn.Write(p)
}

// New builds a cluster of n nodes with replication factor rf and the given shard group duration.
func New(n, rf int, sgd time.Duration, dir string) (*Cluster, error) {
	c := &Cluster{Data: &meta.Data{}, Dir: dir}
	for i := 1; i <= n; i++ {
		addr := fmt.Sprintf("node%d:8088", i)
		if err := c.Data.CreateDataNode(fmt.Sprintf("node%d:8086", i), addr); err != nil {
			return nil, err
		}
	}
	c.Data.CreateDatabase(DB)
	if err := c.Data.CreateRetentionPolicy(DB, &meta.RetentionPolicyInfo{Name: RP, ReplicaN: rf, Duration: 0, ShardGroupDuration: sgd}, true); err != nil {
		return nil, err
	}
	for i := 1; i <= n; i++ {
		node, err := c.newNode(uint64(i))
		if err != nil {
			return nil, err
		}
		c.Nodes = append(c.Nodes, node)
	}
	return c, nil
}

func (c *Cluster) newNode(id uint64) (*Node, error) {
	n := &Node{ID: id, Addr: fmt.Sprintf("node%d:8088", id), cluster: c}
	fm := &fakeMeta{c: c, id: id}
	s := tsdb.NewStore(filepath.Join(c.Dir, fmt.Sprintf("n%d", id), "data"))
	s.EngineOptions.IndexVersion = "inmem"
	s.EngineOptions.Config.WALDir = filepath.Join(c.Dir, fmt.Sprintf("n%d", id), "wal")
	s.EngineOptions.WALEnabled = true
	if err := s.Open(); err != nil {
		return nil, err
	}
	n.Store = s
	cfg := coordinator.NewConfig()
	n.Svc = coordinator.NewService(cfg)
	n.Svc.TSDBStore = nodeStore{s, n}
	n.Svc.Store = storage.NewStore(nodeStore{s, n}, fm)
	n.Svc.MetaClient = fm
	n.Svc.Server = serverStub{n.Addr}
	timeout := 10 * time.Second
	n.ME = coordinator.NewMetaExecutor(timeout, timeout, time.Hour, 4)
	n.ME.MetaClient = fm
	n.SW = coordinator.NewShardWriter(timeout, timeout, time.Hour, 4)
	n.SW.MetaClient = fm
	n.PW = coordinator.NewPointsWriter()
	n.PW.MetaClient = fm
	n.PW.TSDBStore = s
	n.PW.ShardWriter = n.SW
	n.PW.HintedHandoff = noHH{}
	n.PW.WriteTimeout = timeout
	n.PW.Open()
	n.Mapper = &coordinator.ClusterShardMapper{MetaClient: fm, TSDBStore: s, MetaExecutor: n.ME}
	vtcp.Register(n.Addr, n.serve)
	return n, nil
}

// Reopen closes the node's store and opens it again from its files (the cache is rebuilt from the WAL).
func (n *Node) Reopen() error {
	if err := n.Store.Close(); err != nil {
		return err
	}
	s := tsdb.NewStore(filepath.Join(n.cluster.Dir, fmt.Sprintf("n%d", n.ID), "data"))
	s.EngineOptions.IndexVersion = "inmem"
	s.EngineOptions.Config.WALDir = filepath.Join(n.cluster.Dir, fmt.Sprintf("n%d", n.ID), "wal")
	s.EngineOptions.WALEnabled = true
	if err := s.Open(); err != nil {
		return err
	}
	n.Store = s
	n.Svc.TSDBStore = nodeStore{s, n}
	n.Svc.Store = storage.NewStore(nodeStore{s, n}, n.Svc.MetaClient.(*fakeMeta))
	n.PW.TSDBStore = s
	n.Mapper.TSDBStore = s
	return nil
}

// serve handles one incoming connection according to the node's fault.
func (n *Node) serve(conn net.Conn) {
	n.cluster.mu.Lock()
	f := n.Fault
	n.cluster.mu.Unlock()
	if f.Down {
		conn.Close()
		return
	}
	var hdr [1]byte
	if _, err := conn.Read(hdr[:]); err != nil {
		conn.Close()
		return
	}
	if f.Mute {
		// read and discard until the peer gives up
		buf := make([]byte, 4096)
		for {
			if _, err := conn.Read(buf); err != nil {
				conn.Close()
				return
			}
		}
	}
	if f.WriteBudget > 0 {
		conn = &budgetConn{Conn: conn, left: f.WriteBudget}
	}
	n.Svc.VHandleConn(conn)
	conn.Close()
}

// SetFault changes the node's fault (Down also refuses new connections).
func (n *Node) SetFault(f Fault) {
	n.cluster.mu.Lock()
	n.Fault = f
	n.cluster.mu.Unlock()
	if f.Down {
		vtcp.Unregister(n.Addr)
	} else {
		vtcp.Register(n.Addr, n.serve)
	}
}

type failingGroup struct{ tsdb.ShardGroup }

func (g failingGroup) CreateIterator(ctx context.Context, m *influxql.Measurement, opt query.IteratorOptions) (query.Iterator, error) {
	return nil, errors.New("injected: shard engine closed")
}
func (g failingGroup) IteratorCost(measurement string, opt query.IteratorOptions) (query.IteratorCost, error) {
	return query.IteratorCost{}, errors.New("injected: shard engine closed")
}
func (g failingGroup) FieldDimensions(measurements []string) (map[string]influxql.DataType, map[string]struct{}, error) {
	return nil, nil, errors.New("injected: shard engine closed")
}

// AddNode joins a new, empty data node (it owns no existing shard).
func (c *Cluster) AddNode() (*Node, error) {
	c.mu.Lock()
	id := uint64(len(c.Nodes) + 1)
	err := c.Data.CreateDataNode(fmt.Sprintf("node%d:8086", id), fmt.Sprintf("node%d:8088", id))
	c.mu.Unlock()
	if err != nil {
		return nil, err
	}
	n, err := c.newNode(id)
	if err != nil {
		return nil, err
	}
	c.Nodes = append(c.Nodes, n)
	return n, nil
}

// CopyShard copies a shard from one node to another the way the cluster does:
// backup stream -> CreateShard + RestoreShard on the destination, then the
// destination is added to the shard's owners in the metadata.
func (c *Cluster) CopyShard(shardID uint64, from, to int) error {
	var buf bytes.Buffer
	if err := c.Nodes[from].Store.BackupShard(shardID, time.Time{}, &buf); err != nil {
		return err
	}
	if err := c.Nodes[to].Store.CreateShard(DB, RP, shardID, true); err != nil {
		return err
	}
	if err := c.Nodes[to].Store.RestoreShard(shardID, &buf); err != nil {
		return err
	}
	c.mu.Lock()
	c.Data.CopyShardOwner(shardID, c.Nodes[to].ID)
	c.mu.Unlock()
	return nil
}

// Write writes line protocol through the PointsWriter of the coordinating node.
func (c *Cluster) Write(coord int, lines string) error {
	pts, err := models.ParsePointsString(lines)
	if err != nil {
		return err
	}
	return c.Nodes[coord].PW.WritePointsPrivileged(DB, RP, models.ConsistencyLevelAll, pts)
}

// EachEngine calls f for every shard engine of every node.
func (c *Cluster) EachEngine(f func(node *Node, shardID uint64, e *tsm1.Engine)) {
	for _, n := range c.Nodes {
		for _, id := range n.Store.ShardIDs() {
			sh := n.Store.Shard(id)
			if sh == nil {
				continue
			}
			if eng, err := sh.Engine(); err == nil {
				if te, ok := eng.(*tsm1.Engine); ok {
					f(n, id, te)
				}
			}
		}
	}
}

// Query runs a SELECT on the coordinating node and renders the rows.
func (c *Cluster) Query(coord int, q string) (string, error) {
	return QueryMapper(c.Nodes[coord].Mapper, q)
}

// Lookup runs a fan-out request that is not a SELECT on the coordinating node
// and renders the answer: "tag-keys", "tag-values", "measurements" (the calls
// SHOW TAG KEYS / SHOW TAG VALUES / SHOW MEASUREMENTS make on the cluster
// store), "field-keys" (FieldDimensions of the mapped shards, as SHOW FIELD
// KEYS and every SELECT do) and "cost" (IteratorCost, as EXPLAIN does).
func (c *Cluster) Lookup(coord int, kind string) (string, error) {
	n := c.Nodes[coord]
	cs := coordinator.ClusterTSDBStore{Store: n.Store, MetaExecutor: n.ME}
	ctx := context.Background()
	var shardIDs []uint64
	c.mu.Lock()
	rpi, _ := c.Data.RetentionPolicy(DB, RP)
	for _, g := range rpi.ShardGroups {
		for _, sh := range g.Shards {
			shardIDs = append(shardIDs, sh.ID)
		}
	}
	c.mu.Unlock()
	switch kind {
	case "tag-keys":
		r, err := cs.TagKeys(ctx, nil, shardIDs, nil)
		var out []string
		for _, tk := range r {
			out = append(out, fmt.Sprintf("%s:%v", tk.Measurement, tk.Keys))
		}
		return strings.Join(out, " "), err
	case "tag-values":
		cond, err := influxql.ParseExpr("_tagKey = 'host'")
		if err != nil {
			return "", err
		}
		r, err := cs.TagValues(ctx, nil, shardIDs, cond)
		var out []string
		for _, tv := range r {
			out = append(out, fmt.Sprintf("%s:%v", tv.Measurement, tv.Values))
		}
		return strings.Join(out, " "), err
	case "measurements":
		r, err := cs.MeasurementNames(ctx, nil, DB, "", nil)
		var out []string
		for _, m := range r {
			out = append(out, string(m))
		}
		return strings.Join(out, " "), err
	case "field-keys", "cost":
		m := &influxql.Measurement{Database: DB, RetentionPolicy: RP, Name: "cpu"}
		sg, err := n.Mapper.MapShards(influxql.Sources{m}, influxql.TimeRange{}, query.SelectOptions{})
		if err != nil {
			return "", err
		}
		defer sg.Close()
		if kind == "field-keys" {
			f, d, err := sg.FieldDimensions(m)
			var fs, ds []string
			for k, t := range f {
				fs = append(fs, k+":"+t.String())
			}
			for k := range d {
				ds = append(ds, k)
			}
			sort.Strings(fs)
			sort.Strings(ds)
			return fmt.Sprintf("fields=%v dimensions=%v", fs, ds), err
		}
		opt := query.IteratorOptions{Expr: influxql.MustParseExpr("v"), StartTime: influxql.MinTime, EndTime: influxql.MaxTime, Ascending: true}
		cost, err := sg.IteratorCost(m, opt)
		if err != nil {
			return "", err
		}
		// the figures of an estimate depend on placement by design (series, cached values and blocks per
		// shard; with the inmem index, which is shared by the shards of a database on a node, even whether
		// a shard counts as holding the measurement). What does not: every shard is asked at most once, so
		// the estimate cannot count more shards than the retention policy has.
		total := int64(0)
		c.mu.Lock()
		rpi2, _ := c.Data.RetentionPolicy(DB, RP)
		c.mu.Unlock()
		for _, g := range rpi2.ShardGroups {
			total += int64(len(g.Shards))
		}
		if cost.NumShards > total {
			return fmt.Sprintf("estimate counts %d shards, the retention policy has %d", cost.NumShards, total), nil
		}
		return "estimated", nil
	}
	return "", fmt.Errorf("unknown lookup %q", kind)
}

// StorageRead runs a storage ReadFilter (the call behind the Flux / storage API
// read) over the whole retention policy on the coordinating node and renders
// every series with its points.
func (c *Cluster) StorageRead(coord int) (string, error) {
	n := c.Nodes[coord]
	cs := storage.NewClusterStore(nodeStore{n.Store, n}, n.Svc.MetaClient.(*fakeMeta), n.ME)
	src, err := types.MarshalAny(&storage.ReadSource{Database: DB, RetentionPolicy: RP})
	if err != nil {
		return "", err
	}
	req := &datatypes.ReadFilterRequest{ReadSource: src, Range: datatypes.TimestampRange{Start: influxql.MinTime, End: influxql.MaxTime}}
	rs, err := cs.ReadFilter(context.Background(), req)
	if err != nil {
		return "", err
	}
	if rs == nil {
		return "", nil
	}
	defer rs.Close()
	// a series may be emitted once per node that holds a part of it: points are collected per series key
	series := map[string][]string{}
	var keys []string
	for rs.Next() {
		key := rs.Tags().String()
		if _, ok := series[key]; !ok {
			keys = append(keys, key)
		}
		cur := rs.Cursor()
		switch x := cur.(type) {
		case cursors.FloatArrayCursor:
			for a := x.Next(); a.Len() > 0; a = x.Next() {
				for i := range a.Timestamps {
					series[key] = append(series[key], fmt.Sprintf("%020d=%v", a.Timestamps[i], a.Values[i]))
				}
			}
		case cursors.IntegerArrayCursor:
			for a := x.Next(); a.Len() > 0; a = x.Next() {
				for i := range a.Timestamps {
					series[key] = append(series[key], fmt.Sprintf("%020d=%v", a.Timestamps[i], a.Values[i]))
				}
			}
		case nil:
		default:
			series[key] = append(series[key], fmt.Sprintf("?%T", cur))
		}
		if cur != nil {
			if err := cur.Err(); err != nil {
				cur.Close()
				return "", err
			}
			cur.Close()
		}
	}
	var out []string
	for _, k := range keys {
		pts := series[k]
		sort.Strings(pts) // a point read twice shows up twice
		out = append(out, k+": "+strings.Join(pts, " "))
	}
	sort.Strings(out)
	return strings.Join(out, "\n"), rs.Err()
}

// Row is one result series of a SELECT.
type Row struct {
	Name    string
	Tags    map[string]string
	Columns []string
	Values  [][]interface{}
}

// QueryRows runs a SELECT through a shard mapper and returns the emitted rows.
func QueryRows(mapper query.ShardMapper, q string) ([]Row, error) {
	stmt, err := influxql.ParseStatement(q)
	if err != nil {
		return nil, err
	}
	sel, ok := stmt.(*influxql.SelectStatement)
	if !ok {
		return nil, fmt.Errorf("not a select: %s", q)
	}
	// default database / retention policy, as the statement executor normalises them
	influxql.WalkFunc(sel, func(n influxql.Node) {
		if m, ok := n.(*influxql.Measurement); ok {
			if m.Database == "" {
				m.Database = DB
			}
			if m.RetentionPolicy == "" {
				m.RetentionPolicy = RP
			}
		}
	})
	ctx := context.Background()
	cur, err := query.Select(ctx, sel, mapper, query.SelectOptions{})
	if err != nil {
		return nil, err
	}
	defer cur.Close()
	em := query.NewEmitter(cur, 0)
	var out []Row
	for {
		row, _, err := em.Emit()
		if err != nil {
			return out, err
		}
		if row == nil {
			break
		}
		out = append(out, Row{Name: row.Name, Tags: row.Tags, Columns: row.Columns, Values: row.Values})
	}
	return out, nil
}

// QueryMapper runs a SELECT through a shard mapper and renders the result rows canonically.
func QueryMapper(mapper query.ShardMapper, q string) (string, error) {
	rows, err := QueryRows(mapper, q)
	var out []string
	for _, row := range rows {
		var tags []string
		for k, v := range row.Tags {
			tags = append(tags, k+"="+v)
		}
		sort.Strings(tags)
		out = append(out, fmt.Sprintf("%s{%s} cols=%v", row.Name, strings.Join(tags, ","), row.Columns))
		for _, vals := range row.Values {
			out = append(out, fmt.Sprintf("  %v", fmtVals(vals)))
		}
	}
	return strings.Join(out, "\n"), err
}

func fmtVals(vals []interface{}) string {
	var s []string
	for _, v := range vals {
		switch x := v.(type) {
		case time.Time:
			s = append(s, fmt.Sprint(x.UnixNano()))
		case nil:
			s = append(s, "<nil>")
		default:
			s = append(s, fmt.Sprintf("%v", x))
		}
	}
	return strings.Join(s, " ")
}

// Close shuts every component down (a bubble cannot end with blocked goroutines).
func (c *Cluster) Close() {
	for _, n := range c.Nodes {
		n.PW.Close()
		n.SW.Close()
		n.ME.Close()
	}
	vtcp.Reset()
	for _, n := range c.Nodes {
		n.Store.Close()
	}
	// the idle pruner of a closed connection pool only notices the close at its next tick (idle time 1h):
	// let virtual time pass so that every pruner of a closed pool is gone; a pool that was never closed
	// keeps its pruner forever, which the bubble then reports as a leaked goroutine
	time.Sleep(3 * time.Hour)
	os.RemoveAll(c.Dir)
}
