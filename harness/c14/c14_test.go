// C14: the series index always matches the data, for both index types.
//
// Explicit-state BFS over series creation, drops by predicate, measurement
// drops, delete-all-points, re-creation, index compaction (tsi1 log -> index
// file -> levels), series-file compaction, snapshot and reopen, run in
// lock-step on two real stores (inmem and tsi1). After every transition every
// listing and predicate query of both stores is compared with the model (and
// thereby with each other).
package c14

import (
	"context"
	"flag"
	"fmt"
	"os"
	"regexp"
	"sort"
	"strings"
	"testing"
	"testing/synctest"
	"time"

	"github.com/influxdata/influxdb/models"
	"github.com/influxdata/influxdb/tsdb"
	"github.com/influxdata/influxdb/tsdb/index/tsi1"
	"github.com/influxdata/influxql"

	ek "verif/harness/enginekit"
	"verif/mc/explore"
	"verif/mc/report"
)

var replayFile = flag.String("replay", "", "replay file")

var series = []ek.Series{
	{Measurement: "m", Tags: map[string]string{"host": "a"}},
	{Measurement: "m", Tags: map[string]string{"host": "b"}},
	{Measurement: "m", Tags: map[string]string{"host": "a", "dc": "x"}},
	{Measurement: "n", Tags: map[string]string{"host": "a"}},
}

type pred struct {
	expr string
	f    func(ek.Series) bool
}

var preds = []pred{
	{"", func(ek.Series) bool { return true }},
	{"host = 'a'", func(s ek.Series) bool { return s.Tags["host"] == "a" }},
	{"host != 'a'", func(s ek.Series) bool { return s.Tags["host"] != "a" }},
	{"host =~ /^a$|^b$/", func(s ek.Series) bool { return regexp.MustCompile("^a$|^b$").MatchString(s.Tags["host"]) }},
	{"host !~ /a/", func(s ek.Series) bool { return !regexp.MustCompile("a").MatchString(s.Tags["host"]) }},
	{"dc = 'x'", func(s ek.Series) bool { return s.Tags["dc"] == "x" }},
	{"dc = ''", func(s ek.Series) bool { return s.Tags["dc"] == "" }},
	{"host = 'a' AND dc != 'x'", func(s ek.Series) bool { return s.Tags["host"] == "a" && s.Tags["dc"] != "x" }},
}

type op struct {
	name string
	kind string
	s    int
	meas string
	cond string
	sel  func(ek.Series) bool
}

func ops() []op {
	o := []op{}
	for i, s := range series {
		o = append(o, op{name: "create " + s.Key(), kind: "create", s: i})
	}
	o = append(o,
		op{name: "DROP SERIES FROM m WHERE host='a'", kind: "drop", meas: "m", cond: "host = 'a'", sel: func(s ek.Series) bool { return s.Measurement == "m" && s.Tags["host"] == "a" }},
		op{name: "DROP SERIES FROM m WHERE dc='x'", kind: "drop", meas: "m", cond: "dc = 'x'", sel: func(s ek.Series) bool { return s.Measurement == "m" && s.Tags["dc"] == "x" }},
		op{name: "DROP SERIES FROM m WHERE host='b'", kind: "drop", meas: "m", cond: "host = 'b'", sel: func(s ek.Series) bool { return s.Measurement == "m" && s.Tags["host"] == "b" }},
		op{name: "DROP MEASUREMENT m", kind: "dropmeas", meas: "m"},
		op{name: "DELETE FROM m (all points)", kind: "drop", meas: "m", cond: "", sel: func(s ek.Series) bool { return s.Measurement == "m" }},
		op{name: "index compaction", kind: "idxcompact"},
		op{name: "series-file compaction", kind: "sfcompact"},
		op{name: "snapshot", kind: "snapshot"},
		op{name: "reopen", kind: "reopen"},
	)
	return o
}

type answers map[string]string

// query asks one store every question of the catalogue.
func query(e *ek.Env) (answers, error) {
	ctx := context.Background()
	out := answers{}
	idx, err := e.Shard.Index()
	if err != nil {
		return nil, err
	}
	sfile, err := e.Shard.SeriesFile()
	if err != nil {
		return nil, err
	}
	is := tsdb.IndexSet{Indexes: []tsdb.Index{idx}, SeriesFile: sfile}
	for _, p := range preds {
		var cond influxql.Expr
		if p.expr != "" {
			cond, err = influxql.ParseExpr(p.expr)
			if err != nil {
				return nil, err
			}
		}
		names, err := e.Store.MeasurementNames(ctx, nil, ek.DB, "", cond)
		if err != nil {
			return nil, fmt.Errorf("MeasurementNames(%s): %w", p.expr, err)
		}
		var ns []string
		for _, n := range names {
			ns = append(ns, string(n))
		}
		sort.Strings(ns)
		out["measurements where "+p.expr] = strings.Join(ns, ",")
		for _, mn := range []string{"m", "n"} {
			var keys []string
			itr, err := is.MeasurementSeriesByExprIterator([]byte(mn), cond)
			if err != nil {
				return nil, fmt.Errorf("MeasurementSeriesByExprIterator(%s,%s): %w", mn, p.expr, err)
			}
			if itr != nil {
				for {
					el, err := itr.Next()
					if err != nil {
						itr.Close()
						return nil, err
					}
					if el.SeriesID == 0 {
						break
					}
					name, tags := sfile.Series(el.SeriesID)
					if name != nil {
						keys = append(keys, string(models.MakeKey(name, tags)))
					}
				}
				itr.Close()
			}
			sort.Strings(keys)
			out["series of "+mn+" where "+p.expr] = strings.Join(keys, " ")
		}
		// tag values of key host, filtered
		tv := "_tagKey = 'host'"
		if p.expr != "" {
			tv += " AND (" + p.expr + ")"
		}
		tcond, _ := influxql.ParseExpr(tv)
		tvs, err := e.Store.TagValues(ctx, nil, []uint64{ek.ShardID}, tcond)
		if err != nil {
			return nil, fmt.Errorf("TagValues(%s): %w", tv, err)
		}
		var vals []string
		for _, t := range tvs {
			for _, kv := range t.Values {
				vals = append(vals, t.Measurement+"."+kv.Key+"="+kv.Value)
			}
		}
		sort.Strings(vals)
		out["host values where "+p.expr] = strings.Join(vals, ",")
	}
	tks, err := e.Store.TagKeys(ctx, nil, []uint64{ek.ShardID}, nil)
	if err != nil {
		return nil, err
	}
	var tk []string
	for _, t := range tks {
		ks := append([]string(nil), t.Keys...)
		sort.Strings(ks)
		if len(ks) > 0 {
			tk = append(tk, t.Measurement+":"+strings.Join(ks, "+"))
		}
	}
	sort.Strings(tk)
	out["tag keys"] = strings.Join(tk, ",")
	card, err := e.Store.SeriesCardinality(ctx, ek.DB)
	if err != nil {
		return nil, err
	}
	out["series cardinality"] = fmt.Sprint(card)
	return out, nil
}

// expected computes the same catalogue from the set of live series.
func expected(live map[string]ek.Series) answers {
	out := answers{}
	for _, p := range preds {
		ms := map[string]bool{}
		per := map[string][]string{}
		vals := map[string]bool{}
		for k, s := range live {
			if p.f(s) {
				ms[s.Measurement] = true
				per[s.Measurement] = append(per[s.Measurement], k)
				if h, ok := s.Tags["host"]; ok {
					vals[s.Measurement+".host="+h] = true
				}
			}
		}
		var ns []string
		for n := range ms {
			ns = append(ns, n)
		}
		sort.Strings(ns)
		out["measurements where "+p.expr] = strings.Join(ns, ",")
		for _, mn := range []string{"m", "n"} {
			sort.Strings(per[mn])
			out["series of "+mn+" where "+p.expr] = strings.Join(per[mn], " ")
		}
		var vs []string
		for v := range vals {
			vs = append(vs, v)
		}
		sort.Strings(vs)
		out["host values where "+p.expr] = strings.Join(vs, ",")
	}
	tk := map[string]map[string]bool{}
	for _, s := range live {
		if tk[s.Measurement] == nil {
			tk[s.Measurement] = map[string]bool{}
		}
		for k := range s.Tags {
			tk[s.Measurement][k] = true
		}
	}
	var l []string
	for mn, ks := range tk {
		var kk []string
		for k := range ks {
			kk = append(kk, k)
		}
		sort.Strings(kk)
		l = append(l, mn+":"+strings.Join(kk, "+"))
	}
	sort.Strings(l)
	out["tag keys"] = strings.Join(l, ",")
	out["series cardinality"] = fmt.Sprint(len(live))
	return out
}

func run(t *testing.T, alphabet []op, seq []int) explore.StepResult {
	return explore.Guard(120*time.Second, func() explore.StepResult { return runUnguarded(t, alphabet, seq) })
}

func runUnguarded(t *testing.T, alphabet []op, seq []int) (res explore.StepResult) {
	dirs := []string{ek.NewTempDir("c14i"), ek.NewTempDir("c14t")}
	defer os.RemoveAll(dirs[0])
	defer os.RemoveAll(dirs[1])
	synctest.Test(t, func(t *testing.T) {
		envs := []*ek.Env{
			{Dir: dirs[0], IndexType: "inmem", WAL: true},
			{Dir: dirs[1], IndexType: "tsi1", WAL: true, Configure: func(s *tsdb.Store) { s.EngineOptions.Config.MaxIndexLogFileSize = 1 }},
		}
		for _, e := range envs {
			if err := e.Open(); err != nil {
				res.Violation, res.Sig = "open: "+err.Error(), "open-error"
				return
			}
			defer e.Close()
		}
		live := map[string]ek.Series{}
		ts := int64(1)
		for i, oi := range seq {
			o := alphabet[oi]
			last := i == len(seq)-1
			for _, e := range envs {
				var err error
				switch o.kind {
				case "create":
					ts++
					err = e.Write([]ek.Point{{S: series[o.s], Field: "f", T: ts, V: ek.Val{Typ: influxql.Float, F: 1}}})
				case "drop":
					err = e.DeleteWhere(o.meas, o.cond)
				case "dropmeas":
					err = e.Store.DeleteMeasurement(ek.DB, o.meas)
				case "idxcompact":
					if idx, _ := e.Shard.Index(); idx != nil {
						if ti, ok := idx.(*tsi1.Index); ok {
							ti.Compact()
							ti.Wait()
						}
					}
				case "sfcompact":
					if sf, _ := e.Shard.SeriesFile(); sf != nil {
						for _, p := range sf.Partitions() {
							if cerr := tsdb.NewSeriesPartitionCompactor().Compact(p); cerr != nil {
								err = cerr
							}
						}
					}
				case "snapshot":
					err = e.Snapshot()
				case "reopen":
					err = e.Reopen()
				}
				if err != nil && last {
					res.Violation, res.Sig = fmt.Sprintf("%s failed on %s: %v", o.name, e.IndexType, err), "op-error:"+o.kind
					return
				}
				// histories, not schedules: let the index compaction a write kicked off finish
				// before the next operation (their overlap is a C19 scenario)
				if idx, _ := e.Shard.Index(); idx != nil {
					if ti, ok := idx.(*tsi1.Index); ok {
						ti.Wait()
					}
				}
			}
			switch o.kind {
			case "create":
				live[series[o.s].Key()] = series[o.s]
			case "drop":
				for k, s := range live {
					if o.sel(s) {
						delete(live, k)
					}
				}
			case "dropmeas":
				for k, s := range live {
					if s.Measurement == o.meas {
						delete(live, k)
					}
				}
			}
			if !last {
				continue
			}
			want := expected(live)
			var qs []string
			for q := range want {
				qs = append(qs, q)
			}
			sort.Strings(qs)
			gots := make([]answers, len(envs))
			for ei, e := range envs {
				got, err := query(e)
				if err != nil {
					res.Violation, res.Sig = fmt.Sprintf("query failed on %s: %v", e.IndexType, err), "query-error:"+e.IndexType
					return
				}
				gots[ei] = got
			}
			for _, q := range qs {
				if strings.HasPrefix(q, "measurements where") && (strings.Contains(q, "!=") || strings.Contains(q, "!~") || strings.Contains(q, "= ''")) {
					// SHOW MEASUREMENTS with a negative or empty-value tag filter follows InfluxQL's measurement-level
					// filter semantics, which both index types answer alike and differently from a per-series
					// reading: only the agreement of the two index types is checked for these questions
					want[q] = gots[0][q]
				}
				if gots[0][q] == gots[1][q] && gots[0][q] != want[q] {
					// both index types agree with each other and not with the model
					res.Violation = fmt.Sprintf("both index types answer %q with [%s], the series written and not dropped give [%s]", q, gots[0][q], want[q])
					res.Sig = "index:both:" + strings.SplitN(q, " where", 2)[0] + ":" + strings.SplitN(q+" where ", " where ", 2)[1]
					return
				}
			}
			for ei, e := range envs {
				got := gots[ei]
				for _, q := range qs {
					if got[q] == want[q] {
						continue
					}
					kind := "missing"
					if len(got[q]) > len(want[q]) {
						kind = "lingering"
					}
					qk := strings.SplitN(q, " where", 2)[0]
					if strings.HasPrefix(qk, "series of") {
						qk = "series"
					}
					sig := fmt.Sprintf("index:%s:%s:%s", e.IndexType, kind, qk)
					msg := fmt.Sprintf("%s index answers %q with [%s], the series written and not dropped give [%s] (%s answers [%s])", e.IndexType, q, got[q], want[q], envs[1-ei].IndexType, gots[1-ei][q])
					if e.IndexType == "tsi1" && gots[0][q] == want[q] {
						// tsi1 does not remove tag key/value entries when their last series is dropped: known finding,
						// seen through three kinds of question; everything behind it is still explored
						stale := ""
						switch {
						case qk == "host values":
							stale = "tagvalues"
						case qk == "tag keys":
							stale = "tagkeys"
						case qk == "measurements" && !strings.HasSuffix(q, "where "):
							stale = "measurement-filter"
						}
						if stale != "" {
							if res.SoftViolation == "" {
								res.SoftViolation, res.SoftSig = msg, "index:tsi1:stale-tag-entry:"+stale
							}
							continue
						}
					}
					res.Violation, res.Sig = msg, sig
					return
				}
			}
			var ks []string
			for k := range live {
				ks = append(ks, k)
			}
			sort.Strings(ks)
			res.Obs = o.kind
			res.State = strings.Join(ks, " ") + "|" + envs[0].Engine.VLayout() + "|" + envs[1].Engine.VLayout() + "|" + tsiLayout(dirs[1])
		}
		if len(seq) == 0 {
			res.State = "empty"
		}
	})
	return res
}

// tsiLayout lists the index and series-file files of the tsi1 store (names and sizes).
func tsiLayout(dir string) string {
	var parts []string
	walk := func(root string) {
		es, _ := os.ReadDir(root)
		for _, e := range es {
			if e.IsDir() {
				continue
			}
			info, _ := e.Info()
			parts = append(parts, fmt.Sprintf("%s:%d", e.Name(), info.Size()))
		}
	}
	for p := 0; p < 8; p++ {
		walk(fmt.Sprintf("%s/data/%s/%s/%d/index/%d", dir, ek.DB, ek.RP, ek.ShardID, p))
	}
	return strings.Join(parts, ",")
}

func TestCheck(t *testing.T) {
	c := report.Begin("C14", "model_checking")
	c.Rule = "states = (live series set, physical layout of both stores incl. tsi1 index files) reached by BFS over the operation alphabet executed in lock-step on an inmem store and a tsi1 store; after every transition 8 predicates x (measurement names, series of each measurement, host tag values) + tag keys + cardinality are asked of both and compared with the model; distinct = states"
	c.Assumptions = []string{
		"tsi1 MaxIndexLogFileSize=1 so every write rolls the log file into index files; Index.Compact()+Wait() and SeriesPartitionCompactor.Compact are explicit operations",
		"runs inside a synctest bubble; four series in two measurements with two tag keys",
		"every delete names one measurement: a delete spanning several measurements can deadlock against the tsi1 log-file compaction it triggers itself (iterator of the next measurement retains the file set while Engine waits for the compaction) - a schedule-dependent defect recorded in DESIGN.md, outside the histories quantified here",
	}
	alphabet := ops()
	if *replayFile != "" {
		rp, err := report.LoadReplay(*replayFile)
		if err != nil {
			t.Fatal(err)
		}
		r := run(t, alphabet, rp.Seq)
		fmt.Printf("replay %v: violation=%q sig=%q soft=%q\n", rp.Seq, r.Violation, r.Sig, r.SoftViolation)
		if r.Violation != "" {
			report.ExitCode = 1
		}
		return
	}
	depth := c.Pick(5, 6)
	r := explore.BFS(explore.BFSConfig{Ops: len(alphabet), Depth: depth, Workers: 16, OpName: func(i int) string { return alphabet[i].name }},
		func(seq []int) explore.StepResult { return run(t, alphabet, seq) })
	c.AddBFS("index-histories inmem+tsi1 lock-step", r, nil)
	report.ExitCode = c.Finish()
}

func TestMain(m *testing.M) { flag.Parse(); report.Main(m.Run) }
