// C05: a distributed query reads every shard exactly once or fails.
//
// In-process clusters of real data-node components over an in-memory transport
// inside a synctest bubble. Enumerated: cluster size x replication factor x
// owner-assignment offset x coordinating node x per-node fault (down, error
// reply, dies after b bytes of its answer, never answers) x every owner pick
// of the shard mapper (math/rand replaced by an explorer choice) x statement x
// completion order of the mapper's concurrent per-node calls (bounded deviations).
// Oracle: a query that returns no error returns exactly the rows of the same
// statement on a single node holding all the data; if some shard has no
// healthy owner the query must fail; if every shard has one it must succeed.
package c05

import (
	"flag"
	"fmt"
	"os"
	"strings"
	"sync"
	"testing"
	"testing/synctest"
	"time"

	"github.com/influxdata/influxdb/pkg/vgroup"
	"github.com/influxdata/influxdb/pkg/vrand"

	ck "verif/harness/clusterkit"
	"verif/mc/explore"
	"verif/mc/report"
)

var replayFile = flag.String("replay", "", "replay file")

var statements = []string{
	"SELECT v FROM cpu",
	"SELECT count(v), sum(v) FROM cpu",
	"SELECT count(v), sum(v) FROM cpu GROUP BY host",
	"SELECT mean(v) FROM cpu WHERE time >= '2000-01-01T00:00:00Z' AND time < '2000-01-01T04:00:00Z' GROUP BY time(1h)",
	"SELECT v FROM cpu WHERE host = 'h1' ORDER BY time DESC LIMIT 2",
	"SELECT count(v) FROM cpu, mem",
	"SELECT sum(v) FROM (SELECT v FROM cpu), mem",
	"LOOKUP field-keys",
	"LOOKUP cost",
	"LOOKUP tag-keys",
	"LOOKUP tag-values",
	"LOOKUP measurements",
	"STORAGE read-filter",
}

var layouts = []string{"as-created", "late-joined-empty-coordinator", "every-second-shard-copied-to-the-last-node", "shards-copied-and-late-joined-coordinator", "every-shard-also-on-the-last-node-and-late-joined-coordinator"}

type faultKind struct {
	name string
	f    ck.Fault
}

var faults = []faultKind{
	{"ok", ck.Fault{}},
	{"down", ck.Fault{Down: true}},
	{"error-reply", ck.Fault{ErrorOnCreateIterator: true, ErrorOnMetadata: true}},
	{"never-answers", ck.Fault{Mute: true}},
	{"dies-after-40B", ck.Fault{WriteBudget: 40}},
	{"dies-after-1B", ck.Fault{WriteBudget: 1}},
	{"dies-after-90B", ck.Fault{WriteBudget: 90}},
}

const quickFaults = 5 // the quick tier uses the first five fault kinds

func dataLines() string {
	base := time.Date(2000, 1, 1, 0, 0, 0, 0, time.UTC).UnixNano()
	var lines string
	for i := 0; i < 7; i++ {
		lines += fmt.Sprintf("cpu,host=h%d v=%d %d\n", i%3, i+1, base+int64(i)*int64(35*time.Minute))
	}
	for i := 0; i < 3; i++ {
		lines += fmt.Sprintf("mem,host=h%d v=%d %d\n", i, 10*(i+1), base+int64(i)*int64(50*time.Minute))
	}
	return lines
}

var refMu sync.Mutex
var reference = map[string]string{}

func body(t *testing.T, maxNodes int, thorough bool) func(tp *explore.Tape) explore.Outcome {
	return func(tp *explore.Tape) (out explore.Outcome) {
		n := 2 + tp.ChooseFree(maxNodes-1, "nodes-2")
		rf := 1 + tp.ChooseFree(n, "rf-1")
		offset := 0
		if thorough {
			offset = tp.ChooseFree(n, "index-offset")
		}
		layout := tp.ChooseFree(len(layouts), "layout")
		if layout == 1 && n == 3 && !thorough {
			layout = 0 // quick tier: the late joiner is explored on the two-node cluster only (executions of n=3 layout 0 are repeated instead)
		}
		if layout >= 3 && n == 2 {
			layout = 2 // the combined layouts need three original nodes (a copied shard then has three owners)
		}
		total, coord := n, 0
		if layout == 1 || layout >= 3 {
			total = n + 1
			coord = n // the late joiner coordinates
		} else {
			coord = tp.ChooseFree(n, "coordinator")
		}
		fk := make([]int, total)
		for i := 0; i < total; i++ {
			if i == coord {
				continue
			}
			nf := len(faults)
			if !thorough {
				nf = quickFaults
				if layout >= 3 {
					nf = 3 // quick tier, combined layouts: ok / down / error reply
				}
			}
			fk[i] = tp.ChooseFree(nf, fmt.Sprintf("fault[node%d]", i+1))
		}
		si := tp.ChooseFree(len(statements), "statement")
		stmt := statements[si]
		if layout >= 3 && !thorough && !strings.HasPrefix(stmt, "LOOKUP ") && !strings.HasPrefix(stmt, "STORAGE ") {
			// quick tier: the combined layout is explored for the requests that are not SELECTs
			return explore.Outcome{Obs: "err=false shardsOK=true", Detail: "combined layout: SELECT statements are run in the thorough tier only"}
		}
		var rows string
		var qerr error
		var shardsOK bool
		var desc string
		synctest.Test(t, func(t *testing.T) {
			dir, _ := os.MkdirTemp("/dev/shm", "verif-c05-")
			c, err := ck.New(n, rf, time.Hour, dir)
			if err != nil {
				panic(err)
			}
			defer c.Close()
			c.Data.Index += uint64(offset)
			vrand.SetChooser(nil)
			if err := c.Write(0, dataLines()); err != nil {
				panic("write: " + err.Error())
			}
			switch layout {
			case 1:
				if _, err := c.AddNode(); err != nil {
					panic(err)
				}
			case 2, 3, 4:
				rpi, _ := c.Data.RetentionPolicy(ck.DB, ck.RP)
				k := 0
				for _, g := range rpi.ShardGroups {
					for _, s := range g.Shards {
						k++
						if (k%2 == 0 || layout == 4) && !s.OwnedBy(uint64(n)) && len(s.Owners) > 0 && c.Nodes[s.Owners[0].NodeID-1].Store.Shard(s.ID) != nil {
							if err := c.CopyShard(s.ID, int(s.Owners[0].NodeID-1), n-1); err != nil {
								panic("copy shard: " + err.Error())
							}
						}
					}
				}
			}
			if layout >= 3 {
				if _, err := c.AddNode(); err != nil {
					panic(err)
				}
			}
			// healthy owner for every shard?
			shardsOK = true
			rpi, _ := c.Data.RetentionPolicy(ck.DB, ck.RP)
			var shardList []string
			for _, g := range rpi.ShardGroups {
				for _, s := range g.Shards {
					ok := false
					var owners []string
					for _, o := range s.Owners {
						owners = append(owners, fmt.Sprint(o.NodeID))
						if int(o.NodeID-1) == coord || fk[o.NodeID-1] == 0 {
							ok = true
						}
					}
					shardList = append(shardList, fmt.Sprintf("%d{%s}", s.ID, strings.Join(owners, ",")))
					if !ok {
						shardsOK = false
					}
				}
			}
			var fs []string
			for i := 0; i < total; i++ {
				if i != coord {
					c.Nodes[i].SetFault(faults[fk[i]].f)
					fs = append(fs, fmt.Sprintf("node%d=%s", i+1, faults[fk[i]].name))
				}
			}
			desc = fmt.Sprintf("layout=%s nodes=%d rf=%d coordinator=node%d faults=[%s] shards=%v statement=%q", layouts[layout], n, rf, coord+1, strings.Join(fs, " "), shardList, stmt)
			vrand.SetChooser(func(k int) int { return tp.ChooseFree(k, "owner-pick") })
			vgroup.SetChooser(func(k int, caller string) int {
				if !thorough && !strings.Contains(caller, "CreateIterator") {
					return 0 // quick tier: only the order of the iterators handed to the merge is varied
				}
				if !thorough && k == 6 {
					return 2 * tp.Choose(3, "first-to-arrive") // quick tier: which of three calls completes first
				}
				return tp.Choose(k, "arrival-order")
			})
			if kind, ok := strings.CutPrefix(stmt, "LOOKUP "); ok {
				rows, qerr = c.Lookup(coord, kind)
			} else if stmt == "STORAGE read-filter" {
				rows, qerr = c.StorageRead(coord)
			} else {
				rows, qerr = c.Query(coord, stmt)
			}
			vrand.SetChooser(nil)
			vgroup.SetChooser(nil)
		})
		if f := os.Getenv("VERIF_DUMP_TAPES"); f != "" {
			if fh, err := os.OpenFile(fmt.Sprintf("%s.%d", f, os.Getpid()), os.O_APPEND|os.O_CREATE|os.O_WRONLY, 0o644); err == nil {
				fmt.Fprintf(fh, "%v %v err=%v\n", tp.Picks(), tp.Labels(), qerr != nil)
				fh.Close()
			}
		}
		refMu.Lock()
		want, ok := reference[stmt]
		refMu.Unlock()
		if !ok {
			want = referenceRows(t, stmt)
		}
		out.Detail = desc
		midStream := false
		for i, k := range fk {
			if i != coord && faults[k].f.WriteBudget >= 30 {
				midStream = true // the node answers the request and dies while streaming points
			}
		}
		out.Obs = fmt.Sprintf("err=%v shardsOK=%v", qerr != nil, shardsOK)
		switch {
		case stmt == "STORAGE read-filter" && qerr == nil && rows != want:
			out.Violation = fmt.Sprintf("the storage read returned no error but an incomplete or wrong result:\n%s\nexpected (single node with all data):\n%s", rows, want)
			out.Sig = "storage-read-silent-partial:" + faultsUsed(fk, coord)
			if midStream {
				out.Sig = "storage-read-silent-truncated-stream"
			}
		case stmt == "STORAGE read-filter" && qerr != nil && shardsOK && !midStream:
			out.Violation = fmt.Sprintf("every shard has a healthy owner, but the storage read failed: %v", qerr)
			out.Sig = "storage-read-failed-although-owners-available:" + faultsUsed(fk, coord)
		case strings.HasPrefix(stmt, "LOOKUP ") && qerr == nil && rows != want:
			out.Violation = fmt.Sprintf("the lookup returned no error but an incomplete or wrong answer:\n%s\nexpected (single node with all data):\n%s", rows, want)
			out.Sig = "lookup-silent-partial:" + strings.TrimPrefix(stmt, "LOOKUP ")
			if faultsUsed(fk, coord) == "no-fault" {
				out.Sig += ":no-fault" // a wrong answer with every node healthy is not the recorded finding
			}
		case strings.HasPrefix(stmt, "LOOKUP ") && qerr != nil && shardsOK && !midStream:
			out.Violation = fmt.Sprintf("every shard has a healthy owner, but the lookup failed: %v", qerr)
			out.Sig = "lookup-failed-although-owners-available:" + strings.TrimPrefix(stmt, "LOOKUP ")
		case qerr == nil && rows != want && rows == "":
			out.Violation = "the query returned no error and no rows at all although data exists (field type lookup on unreachable owners has no error path):\nexpected:\n" + want
			out.Sig = "silent-empty-result"
			if faultsUsed(fk, coord) == "no-fault" {
				out.Sig = "silent-partial-result:no-fault" // an empty answer with every node healthy is not the recorded finding
			}
		case qerr == nil && rows != want && midStream:
			out.Violation = fmt.Sprintf("a remote owner died while streaming points and the query returned the truncated result without error:\n%s\nexpected:\n%s", rows, want)
			out.Sig = "silent-truncated-stream"
		case qerr == nil && rows != want:
			out.Violation = fmt.Sprintf("the query returned no error but an incomplete or wrong result:\n%s\nexpected (single node with all data):\n%s", rows, want)
			out.Sig = "silent-partial-result:" + faultsUsed(fk, coord)
		case qerr != nil && shardsOK && !midStream:
			out.Violation = fmt.Sprintf("every shard has a healthy owner, but the query failed: %v", qerr)
			out.Sig = "failed-although-owners-available:" + faultsUsed(fk, coord)
		}
		return out
	}
}

func faultsUsed(fk []int, coord int) string {
	set := map[string]bool{}
	for i, k := range fk {
		if i != coord && k != 0 {
			n := faults[k].name
			if strings.HasPrefix(n, "dies-after") {
				n = "dies-mid-stream"
			}
			set[n] = true
		}
	}
	var l []string
	for k := range set {
		l = append(l, k)
	}
	if len(l) == 0 {
		return "no-fault"
	}
	// stable order
	for i := range l {
		for j := i + 1; j < len(l); j++ {
			if l[j] < l[i] {
				l[i], l[j] = l[j], l[i]
			}
		}
	}
	return strings.Join(l, "+")
}

func referenceRows(t *testing.T, stmt string) string {
	var rows string
	synctest.Test(t, func(t *testing.T) {
		dir, _ := os.MkdirTemp("/dev/shm", "verif-c05ref-")
		c, err := ck.New(1, 1, time.Hour, dir)
		if err != nil {
			panic(err)
		}
		defer c.Close()
		if err := c.Write(0, dataLines()); err != nil {
			panic(err)
		}
		var r string
		if kind, ok := strings.CutPrefix(stmt, "LOOKUP "); ok {
			r, err = c.Lookup(0, kind)
		} else if stmt == "STORAGE read-filter" {
			r, err = c.StorageRead(0)
		} else {
			r, err = c.Query(0, stmt)
		}
		if err != nil {
			panic("reference query failed: " + err.Error())
		}
		rows = r
	})
	refMu.Lock()
	reference[stmt] = rows
	refMu.Unlock()
	return rows
}

func TestCheck(t *testing.T) {
	if explore.WorkerScenario() != "" {
		explore.WorkerLoop(body(t, 3, report.Tier() == "thorough"))
		return
	}
	c := report.Begin("C05", "fault_enumeration")
	c.Rule = "every (cluster size, replication factor, owner-assignment offset, coordinator, per-node fault, owner pick of the mapper, statement) tuple is one execution of real PointsWriter/ShardMapper/MetaExecutor/Service components over an in-memory transport in a synctest bubble; distinct = (error?, all shards have a healthy owner?) classes"
	c.Assumptions = []string{
		"meta client is a thin view over a real meta.Data; hinted handoff off (writes use consistency all before any fault is injected)",
		"the order in which concurrent per-node calls of the shard mapper complete is an explorer choice (errgroup replaced by a sequential group; every order of up to 3 calls, rotations above); at most 1 (quick) / 2 (thorough) non-default orders per execution",
		"statement kinds: raw and aggregate SELECTs; metadata lookups and storage reads are not enumerated yet",
	}
	b := body(t, 3, c.Thorough())
	if *replayFile != "" {
		rp, err := report.LoadReplay(*replayFile)
		if err != nil {
			t.Fatal(err)
		}
		out, _ := explore.Replay(rp.Tape, b)
		fmt.Printf("outcome: %+v\n", out)
		if out.Violation != "" {
			report.ExitCode = 1
		}
		return
	}
	bound, deadline := 1, 20*time.Minute
	if c.Thorough() {
		bound, deadline = 2, 100*time.Minute
	}
	// one process: the owner-pick chooser is process global, so executions are sequential within a worker
	r := explore.ExploreProcs(explore.ProcConfig{Scenario: "cluster", Bound: bound, Procs: 16, Budget: 40, Deadline: deadline, Env: []string{"GOMAXPROCS=2"}})
	c.AddExplore("cluster select with faults", r, map[string]any{"scenario": "cluster"})
	report.ExitCode = c.Finish()
}

func TestMain(m *testing.M) { flag.Parse(); report.Main(m.Run) }
