package c11

// Reference evaluation of the covered SELECT grammar over the logical data
// (last write wins per series, field and timestamp), written independently of
// the query engine: plain loops over a map.

import (
	"fmt"
	"math"
	"sort"
	"strings"
	"time"

	"github.com/influxdata/influxdb/models"
)

const minute = int64(time.Minute)

var base = time.Date(2000, 1, 1, 0, 0, 0, 0, time.UTC).UnixNano()

var fieldTypes = map[string]string{"v": "float", "i": "integer", "s": "string", "b": "boolean"}

// model: host -> time -> field -> value
type model map[string]map[int64]map[string]interface{}

func (m model) apply(lines string) {
	pts, err := models.ParsePointsString(lines)
	if err != nil {
		panic(err)
	}
	for _, p := range pts {
		host := p.Tags().GetString("host")
		if m[host] == nil {
			m[host] = map[int64]map[string]interface{}{}
		}
		t := p.UnixNano()
		if m[host][t] == nil {
			m[host][t] = map[string]interface{}{}
		}
		fs, _ := p.Fields()
		for k, v := range fs {
			m[host][t][k] = v
		}
	}
}

type stmt struct {
	fn     string   // "" = raw
	fields []string // raw: one or two fields; call: one
	rng    int      // index into ranges
	pred   int      // 0 none, 1 host='h1', 2 host!='h1'
	byHost bool
	tg     int // 0 none, 1 time(1h), 2 time(1h,15m), 3 time(30m)
	fill   int // 0 default(null), 1 none, 2 100, 3 previous, 4 linear
	desc   bool
	limit  int
	offset int
	slimit int
}

type trange struct{ lo, hi int64 } // minutes relative to base; hi<0 = unbounded

var ranges = []trange{{0, -1}, {0, 240}, {30, 150}, {0, 1620}}

var tgroups = []struct{ iv, off int64 }{{0, 0}, {60, 0}, {60, 15}, {30, 0}}

var fillNames = []string{"", "fill(none)", "fill(100)", "fill(previous)", "fill(linear)"}

func ts(min int64) string {
	return time.Unix(0, base+min*minute).UTC().Format(time.RFC3339)
}

func (s stmt) SQL() string {
	var b strings.Builder
	b.WriteString("SELECT ")
	if s.fn == "" {
		b.WriteString(strings.Join(s.fields, ", "))
	} else {
		fmt.Fprintf(&b, "%s(%s)", s.fn, s.fields[0])
	}
	b.WriteString(" FROM m")
	var conds []string
	if r := ranges[s.rng]; s.rng != 0 {
		conds = append(conds, fmt.Sprintf("time >= '%s' AND time < '%s'", ts(r.lo), ts(r.hi)))
	}
	switch s.pred {
	case 1:
		conds = append(conds, "host = 'h1'")
	case 2:
		conds = append(conds, "host != 'h1'")
	}
	if len(conds) > 0 {
		b.WriteString(" WHERE " + strings.Join(conds, " AND "))
	}
	var dims []string
	if g := tgroups[s.tg]; s.tg != 0 {
		if g.off != 0 {
			dims = append(dims, fmt.Sprintf("time(%dm, %dm)", g.iv, g.off))
		} else {
			dims = append(dims, fmt.Sprintf("time(%dm)", g.iv))
		}
	}
	if s.byHost {
		dims = append(dims, "host")
	}
	if len(dims) > 0 {
		b.WriteString(" GROUP BY " + strings.Join(dims, ", "))
	}
	if s.fill != 0 {
		b.WriteString(" " + fillNames[s.fill])
	}
	if s.desc {
		b.WriteString(" ORDER BY time DESC")
	}
	if s.limit > 0 {
		fmt.Fprintf(&b, " LIMIT %d", s.limit)
	}
	if s.offset > 0 {
		fmt.Fprintf(&b, " OFFSET %d", s.offset)
	}
	if s.slimit > 0 {
		fmt.Fprintf(&b, " SLIMIT %d", s.slimit)
	}
	return b.String()
}

// resRow is one output row: time and rendered column values.
type resRow struct {
	t    int64
	vals []string
}

type resSeries struct {
	tags string // "" or "host=h0"
	cols []string
	rows []resRow
}

func fmtVal(v interface{}) string {
	switch x := v.(type) {
	case nil:
		return "null"
	case float64:
		if x == 0 {
			return "0" // -0 and 0 are the same answer
		}
		return fmt.Sprintf("%.10g", x)
	case int64:
		return fmt.Sprintf("%d", x)
	case uint64:
		return fmt.Sprintf("%d", x)
	case string:
		return fmt.Sprintf("%q", x)
	case bool:
		return fmt.Sprintf("%v", x)
	case time.Time:
		return fmt.Sprintf("%d", x.UnixNano())
	}
	return fmt.Sprintf("?%T:%v", v, v)
}

// render gives the canonical text of a result; rows of equal time inside one
// series are sorted (their relative order is not defined by the language).
func render(res []resSeries) string {
	var b strings.Builder
	for _, s := range res {
		fmt.Fprintf(&b, "m{%s} %v\n", s.tags, s.cols)
		rows := append([]resRow{}, s.rows...)
		for i := 0; i < len(rows); {
			j := i
			for j < len(rows) && rows[j].t == rows[i].t {
				j++
			}
			grp := rows[i:j]
			sort.Slice(grp, func(a, c int) bool { return strings.Join(grp[a].vals, " ") < strings.Join(grp[c].vals, " ") })
			i = j
		}
		for _, r := range rows {
			fmt.Fprintf(&b, "  %d %s\n", (r.t-base)/int64(time.Second), strings.Join(r.vals, " "))
		}
	}
	return b.String()
}

type sample struct {
	t    int64
	host string
	v    interface{}
}

var errUnsupported = fmt.Errorf("reference does not define this statement")
var errTieAmbiguous = fmt.Errorf("limit/offset cuts through rows of equal time")

// eval evaluates s over m.
func (m model) eval(s stmt) ([]resSeries, error) {
	r := ranges[s.rng]
	lo, hi := int64(math.MinInt64), int64(math.MaxInt64)
	if s.rng != 0 {
		lo, hi = base+r.lo*minute, base+r.hi*minute
	}
	var hosts []string
	for h := range m {
		if s.pred == 1 && h != "h1" || s.pred == 2 && h == "h1" {
			continue
		}
		hosts = append(hosts, h)
	}
	sort.Strings(hosts)
	type group struct {
		tags  string
		hosts []string
	}
	var groups []group
	if s.byHost {
		for _, h := range hosts {
			groups = append(groups, group{"host=" + h, []string{h}})
		}
	} else {
		groups = []group{{"", hosts}}
	}
	var out []resSeries
	for _, g := range groups {
		var rs resSeries
		rs.tags = g.tags
		if s.fn == "" {
			rs.cols = append([]string{"time"}, s.fields...)
			for _, h := range g.hosts {
				for t, fs := range m[h] {
					if t < lo || t >= hi {
						continue
					}
					any := false
					vals := make([]string, len(s.fields))
					for i, f := range s.fields {
						v, ok := fs[f]
						if ok {
							any = true
							vals[i] = fmtVal(v)
						} else {
							vals[i] = "null"
						}
					}
					if any {
						rs.rows = append(rs.rows, resRow{t, vals})
					}
				}
			}
			sort.Slice(rs.rows, func(a, b int) bool {
				if rs.rows[a].t != rs.rows[b].t {
					return (rs.rows[a].t < rs.rows[b].t) != s.desc
				}
				return strings.Join(rs.rows[a].vals, " ") < strings.Join(rs.rows[b].vals, " ")
			})
			if s.limit > 0 || s.offset > 0 {
				// a cut between rows of equal time has no defined answer
				cut := func(k int) bool {
					return k > 0 && k < len(rs.rows) && rs.rows[k-1].t == rs.rows[k].t
				}
				if cut(s.offset) || (s.limit > 0 && cut(s.offset+s.limit)) {
					return nil, errTieAmbiguous
				}
			}
		} else {
			f := s.fields[0]
			var pts []sample
			for _, h := range g.hosts {
				for t, fs := range m[h] {
					if t < lo || t >= hi {
						continue
					}
					if v, ok := fs[f]; ok {
						pts = append(pts, sample{t, h, v})
					}
				}
			}
			if len(pts) == 0 {
				continue
			}
			sort.Slice(pts, func(a, b int) bool { return pts[a].t < pts[b].t })
			rs.cols = []string{"time", s.fn}
			if s.tg == 0 {
				v, vt, err := reduce(s.fn, fieldTypes[f], pts)
				if err != nil {
					return nil, err
				}
				t := int64(0)
				if s.rng != 0 {
					t = lo
				}
				if isSelector(s.fn) {
					t = vt
				}
				rs.rows = []resRow{{t, []string{fmtVal(v)}}}
			} else {
				tg := tgroups[s.tg]
				iv, off := tg.iv*minute, tg.off*minute
				bucket := func(t int64) int64 {
					// start of the window containing t: boundaries at off + k*iv (Unix epoch based)
					d := (t - off) % iv
					if d < 0 {
						d += iv
					}
					return t - d
				}
				type cell struct {
					t   int64
					v   interface{}
					has bool
				}
				var cells []cell
				for b := bucket(lo); b < hi; b += iv {
					var in []sample
					for _, p := range pts {
						if p.t >= b && p.t < b+iv {
							in = append(in, p)
						}
					}
					c := cell{t: b}
					if len(in) > 0 {
						v, _, err := reduce(s.fn, fieldTypes[f], in)
						if err != nil {
							return nil, err
						}
						c.v, c.has = v, true
					}
					cells = append(cells, c)
				}
				fill := s.fill
				resType := resultType(s.fn, fieldTypes[f])
				if s.desc && (fill == 3 || fill == 4) {
					return nil, errUnsupported
				}
				var rows []resRow
				for i, c := range cells {
					switch {
					case c.has:
						rows = append(rows, resRow{c.t, []string{fmtVal(c.v)}})
					case fill == 1:
					case fill == 0 && s.fn == "count":
						rows = append(rows, resRow{c.t, []string{"0"}})
					case fill == 0:
						rows = append(rows, resRow{c.t, []string{"null"}})
					case fill == 2:
						switch resType {
						case "float":
							rows = append(rows, resRow{c.t, []string{fmtVal(float64(100))}})
						case "integer":
							rows = append(rows, resRow{c.t, []string{fmtVal(int64(100))}})
						default:
							return nil, errUnsupported
						}
					case fill == 3:
						v := interface{}(nil)
						for j := i - 1; j >= 0; j-- {
							if cells[j].has {
								v = cells[j].v
								break
							}
						}
						rows = append(rows, resRow{c.t, []string{fmtVal(v)}})
					case fill == 4:
						if resType != "float" {
							return nil, errUnsupported
						}
						pi, ni := -1, -1
						for j := i - 1; j >= 0; j-- {
							if cells[j].has {
								pi = j
								break
							}
						}
						for j := i + 1; j < len(cells); j++ {
							if cells[j].has {
								ni = j
								break
							}
						}
						if pi < 0 || ni < 0 {
							rows = append(rows, resRow{c.t, []string{"null"}})
						} else {
							pv, nv := cells[pi].v.(float64), cells[ni].v.(float64)
							slope := (nv - pv) / float64(cells[ni].t-cells[pi].t)
							rows = append(rows, resRow{c.t, []string{fmtVal(slope*float64(c.t-cells[pi].t) + pv)}})
						}
					}
				}
				if s.desc {
					for a, b := 0, len(rows)-1; a < b; a, b = a+1, b-1 {
						rows[a], rows[b] = rows[b], rows[a]
					}
				}
				rs.rows = rows
			}
		}
		if s.offset > 0 {
			if s.offset >= len(rs.rows) {
				rs.rows = nil
			} else {
				rs.rows = rs.rows[s.offset:]
			}
		}
		if s.limit > 0 && len(rs.rows) > s.limit {
			rs.rows = rs.rows[:s.limit]
		}
		if len(rs.rows) == 0 {
			continue
		}
		out = append(out, rs)
	}
	if s.desc && s.byHost {
		// the engine walks series in descending tag order for a descending query
		for a, b := 0, len(out)-1; a < b; a, b = a+1, b-1 {
			out[a], out[b] = out[b], out[a]
		}
	}
	if s.slimit > 0 && len(out) > s.slimit {
		out = out[:s.slimit]
	}
	return out, nil
}

func isSelector(fn string) bool {
	switch fn {
	case "first", "last", "min", "max":
		return true
	}
	return false
}

func resultType(fn, ft string) string {
	switch fn {
	case "count":
		return "integer"
	case "mean", "median":
		return "float"
	}
	return ft
}

func num(v interface{}) float64 {
	switch x := v.(type) {
	case float64:
		return x
	case int64:
		return float64(x)
	}
	panic("not numeric")
}

func greater(a, b interface{}) bool {
	switch x := a.(type) {
	case float64:
		return x > b.(float64)
	case int64:
		return x > b.(int64)
	case string:
		return x > b.(string)
	case bool:
		return x && !b.(bool)
	}
	panic("type")
}

// reduce computes fn over pts (sorted by time, non-empty).
func reduce(fn, ft string, pts []sample) (interface{}, int64, error) {
	numeric := ft == "float" || ft == "integer"
	switch fn {
	case "count":
		return int64(len(pts)), 0, nil
	case "first", "last":
		best := pts[0]
		for _, p := range pts[1:] {
			if _, isBool := p.v.(bool); fn == "first" && isBool {
				// booleans: among points of equal time first() prefers false (last() prefers true)
				if p.t < best.t || p.t == best.t && greater(best.v, p.v) {
					best = p
				}
				continue
			}
			if fn == "first" && (p.t < best.t || p.t == best.t && greater(p.v, best.v)) ||
				fn == "last" && (p.t > best.t || p.t == best.t && greater(p.v, best.v)) {
				best = p
			}
		}
		return best.v, best.t, nil
	}
	if !numeric {
		return nil, 0, errUnsupported
	}
	switch fn {
	case "sum":
		if ft == "integer" {
			var s int64
			for _, p := range pts {
				s += p.v.(int64)
			}
			return s, 0, nil
		}
		var s float64
		for _, p := range pts {
			s += p.v.(float64)
		}
		return s, 0, nil
	case "mean":
		var s float64
		for _, p := range pts {
			s += num(p.v)
		}
		return s / float64(len(pts)), 0, nil
	case "min", "max":
		best := pts[0]
		for _, p := range pts[1:] {
			if fn == "min" && (num(p.v) < num(best.v) || num(p.v) == num(best.v) && p.t < best.t) ||
				fn == "max" && (num(p.v) > num(best.v) || num(p.v) == num(best.v) && p.t < best.t) {
				best = p
			}
		}
		return best.v, best.t, nil
	case "spread":
		mn, mx := pts[0].v, pts[0].v
		for _, p := range pts[1:] {
			if num(p.v) < num(mn) {
				mn = p.v
			}
			if num(p.v) > num(mx) {
				mx = p.v
			}
		}
		if ft == "integer" {
			return mx.(int64) - mn.(int64), 0, nil
		}
		return mx.(float64) - mn.(float64), 0, nil
	case "median":
		vs := make([]float64, len(pts))
		for i, p := range pts {
			vs[i] = num(p.v)
		}
		sort.Float64s(vs)
		if len(vs)%2 == 1 {
			return vs[len(vs)/2], 0, nil
		}
		a, b := vs[len(vs)/2-1], vs[len(vs)/2]
		return a + (b-a)/2, 0, nil
	}
	return nil, 0, errUnsupported
}
