// C11: the result of a SELECT depends only on the logical data and the statement.
//
// Every write history (sequences of batches from a small alphabet: irregular
// timestamps, gaps, overwrites, four field types, points on shard boundaries)
// is laid out physically in every way of a layout alphabet (shard-group
// duration, cache / files / mixed / compacted, 1-3 nodes, replication factor,
// coordinating node, late-joined coordinator, copied shards) on real stores
// and real cluster components, and every statement of a bounded grammar is run
// on each. Oracles: (1) on the base layout the rows equal an independent
// reference evaluation over the logical points; (2) on every other layout the
// rows equal those of the base layout.
package c11

import (
	"flag"
	"fmt"
	"os"
	"sort"
	"strings"
	"sync"
	"testing"
	"testing/synctest"
	"time"

	"github.com/influxdata/influxdb/tsdb/engine/tsm1"

	ck "verif/harness/clusterkit"
	"verif/mc/explore"
	"verif/mc/report"
)

var replayFile = flag.String("replay", "", "replay file")

func at(min int64) int64 { return base + min*minute }

// batches: the write alphabet (line protocol).
var batches = []struct {
	name  string
	lines string
}{
	{"base", fmt.Sprintf(
		"m,host=h0 v=1.5,i=3i %d\nm,host=h0 v=-2.25,i=-7i %d\nm,host=h0 v=4,i=10i %d\n"+
			"m,host=h1 v=8.5,i=1i,s=\"a\",b=true %d\nm,host=h1 v=0.5,i=5i,s=\"zz\",b=false %d\n",
		at(0), at(20), at(65), at(20), at(130))},
	{"overwrite", fmt.Sprintf(
		"m,host=h0 v=7.75,i=2i %d\nm,host=h1 v=3,i=4i %d\nm,host=h1 v=-1,s=\"m\" %d\nm,host=h2 v=6.25,s=\"q\" %d\n",
		at(20), at(130), at(59)+59*int64(time.Second), at(200))},
	{"next-day", fmt.Sprintf(
		"m,host=h0 v=12,i=12i %d\nm,host=h1 v=2.5,i=-3i,b=true %d\nm,host=h1 v=9,i=9i %d\n",
		at(26*60), at(25*60), at(24*60))},
	{"gaps", fmt.Sprintf(
		"m,host=h0 v=-4.5,i=100i %d\nm,host=h0 v=1024,i=-50i %d\nm,host=h1 v=0.25,i=6i %d\nm,host=h1 v=0.25,i=6i %d\n",
		at(90), at(185), at(90), at(60))},
	{"text", fmt.Sprintf(
		"m,host=h2 s=\"b\",b=true %d\nm,host=h2 s=\"a\",b=false %d\nm,host=h2 s=\"c\",b=true %d\nm,host=h0 s=\"x\" %d\n",
		at(10), at(70), at(130), at(20))},
	{"dense", func() string {
		var l string
		for k := int64(0); k <= 12; k++ {
			l += fmt.Sprintf("m,host=h0 v=%g %d\n", float64(k%5)*0.5-1, at(k*10))
		}
		l += fmt.Sprintf("m,host=h1 v=16,i=2i %d\nm,host=h1 v=32,i=3i %d\nm,host=h1 v=64,i=8i %d\n", at(5), at(15), at(25))
		return l
	}()},
}

// layouts
type layout struct {
	nodes, rf int
	sgd       time.Duration
	mode      int // 0 cache, 1 snapshot after every batch, 2 = 1 + full compaction, 3 snapshot after the first batch only, 4 = 1 + reopen of every store
	coord     int
	late      bool // a node joined after the writes coordinates
	copyTo    bool // every second shard copied to the last node
}

func (l layout) String() string {
	modes := []string{"cache", "snapshot-each", "snapshot-each+compact", "snapshot-first-only", "snapshot-each+reopen"}
	s := fmt.Sprintf("nodes=%d rf=%d shard-duration=%s storage=%s coordinator=node%d", l.nodes, l.rf, l.sgd, modes[l.mode], l.coord+1)
	if l.late {
		s += " (late joiner)"
	}
	if l.copyTo {
		s += " shards-copied"
	}
	return s
}

func layouts(thorough bool) []layout {
	h := time.Hour
	ls := []layout{{nodes: 1, rf: 1, sgd: h}} // base layout first
	for _, sgd := range []time.Duration{h, 24 * h, 168 * h} {
		for mode := 0; mode <= 4; mode++ {
			if sgd == h && mode == 0 {
				continue
			}
			ls = append(ls, layout{nodes: 1, rf: 1, sgd: sgd, mode: mode})
		}
	}
	type nr struct{ n, rf int }
	for _, c := range []nr{{2, 1}, {2, 2}, {3, 1}, {3, 2}, {3, 3}} {
		for coord := 0; coord < c.n; coord++ {
			if !thorough && coord > 0 && c.rf == c.n {
				continue // every node holds everything: one coordinator in the quick tier
			}
			for _, sgd := range []time.Duration{h, 24 * h} {
				modes := []int{0, 3}
				if thorough {
					modes = []int{0, 1, 2, 3}
				}
				for _, mode := range modes {
					if !thorough && sgd == 24*h && mode == 3 {
						continue
					}
					ls = append(ls, layout{nodes: c.n, rf: c.rf, sgd: sgd, mode: mode, coord: coord})
				}
			}
		}
	}
	for _, c := range []nr{{2, 1}, {3, 2}} {
		ls = append(ls, layout{nodes: c.n, rf: c.rf, sgd: h, mode: 0, late: true, coord: c.n})
		ls = append(ls, layout{nodes: c.n, rf: c.rf, sgd: h, mode: 1, copyTo: true, coord: c.n - 1})
		ls = append(ls, layout{nodes: c.n, rf: c.rf, sgd: h, mode: 1, copyTo: true, coord: 0})
	}
	return ls
}

// statements returns the grammar with a level per statement: 0 = light
// sub-grammar, 1 = quick grammar, 2 = thorough grammar (each contains the one before).
func statements() ([]stmt, []int) {
	var out []stmt
	var lvl []int
	add := func(s stmt, level int) { out = append(out, s); lvl = append(lvl, level) }
	max := func(a ...int) int {
		m := 0
		for _, x := range a {
			if x > m {
				m = x
			}
		}
		return m
	}
	b2i := func(b bool, v int) int {
		if b {
			return v
		}
		return 0
	}
	type lim struct{ limit, offset, slimit, level int }
	lims := func(byHost bool) []lim {
		l := []lim{{0, 0, 0, 0}, {2, 0, 0, 1}, {2, 1, 0, 0}}
		if byHost {
			l = append(l, lim{0, 0, 1, 0})
		}
		return l
	}
	preds := []int{0, 1, 2}
	// raw
	for _, fs := range [][]string{{"v"}, {"i"}, {"s"}, {"b"}, {"v", "s"}} {
		for rng := range ranges {
			for _, pred := range preds {
				for _, byHost := range []bool{false, true} {
					for _, desc := range []bool{false, true} {
						for _, l := range lims(byHost) {
							level := max(l.level, b2i(rng == 1 || rng == 3, 1), b2i(pred == 1, 1))
							add(stmt{fields: fs, rng: rng, pred: pred, byHost: byHost, desc: desc, limit: l.limit, offset: l.offset, slimit: l.slimit}, level)
						}
					}
				}
			}
		}
	}
	type call struct{ fn, f string }
	var calls []call
	for _, f := range []string{"v", "i"} {
		for _, fn := range []string{"count", "sum", "mean", "min", "max", "first", "last", "spread", "median"} {
			calls = append(calls, call{fn, f})
		}
	}
	for _, f := range []string{"s", "b"} {
		for _, fn := range []string{"count", "first", "last"} {
			calls = append(calls, call{fn, f})
		}
	}
	// calls without time grouping
	for _, c := range calls {
		for rng := range ranges {
			for _, pred := range preds {
				for _, byHost := range []bool{false, true} {
					level := max(b2i(rng == 1 || rng == 3, 1), b2i(pred == 1, 1))
					add(stmt{fn: c.fn, fields: []string{c.f}, rng: rng, pred: pred, byHost: byHost}, level)
				}
			}
		}
	}
	// calls with time grouping
	for _, c := range calls {
		clevel := b2i((c.fn == "min" || c.fn == "last" || c.fn == "spread") && c.f == "i", 2)
		for rng := 1; rng < len(ranges); rng++ {
			for _, pred := range preds {
				for tg := 1; tg <= 3; tg++ {
					for _, byHost := range []bool{false, true} {
						for fill := 0; fill <= 4; fill++ {
							if (c.f == "s" || c.f == "b") && c.fn != "count" && (fill == 2 || fill == 4) {
								continue
							}
							for _, desc := range []bool{false, true} {
								for _, l := range lims(byHost) {
									level := max(clevel, b2i(pred == 1, 2), b2i(pred == 2, 1), b2i(tg == 3, 2), b2i(tg == 2, 1),
										b2i(l.limit == 2 && l.offset == 0 || l.slimit > 0, 2), b2i(l.limit > 0, 1),
										b2i(rng == 3 && (desc || l.limit > 0), 2), b2i(rng == 2, 1), b2i(fill == 2 || fill == 4, 1))
									add(stmt{fn: c.fn, fields: []string{c.f}, rng: rng, pred: pred, byHost: byHost, tg: tg, fill: fill, desc: desc, limit: l.limit, offset: l.offset, slimit: l.slimit}, level)
								}
							}
						}
					}
				}
			}
		}
	}
	return out, lvl
}

// grammarLevel says which sub-grammar is run on a layout.
func grammarLevel(l layout, histLen int, thorough bool) int {
	switch {
	case l.nodes == 1 && thorough:
		return 2
	case l.nodes == 1:
		return 1
	case thorough && histLen <= 2:
		return 1
	}
	return 0
}

// build lays the history out and returns the cluster.
func build(l layout, hist []int, dir string) *ck.Cluster {
	c, err := ck.New(l.nodes, l.rf, l.sgd, dir)
	if err != nil {
		panic(err)
	}
	snapshot := func() {
		c.EachEngine(func(n *ck.Node, id uint64, e *tsm1.Engine) {
			if err := e.WriteSnapshot(); err != nil {
				panic("snapshot: " + err.Error())
			}
		})
	}
	for k, b := range hist {
		if err := c.Write(k%l.nodes, batches[b].lines); err != nil {
			panic("write: " + err.Error())
		}
		switch l.mode {
		case 1, 2, 4:
			snapshot()
		case 3:
			if k == 0 {
				snapshot()
			}
		}
	}
	if l.mode == 2 {
		c.EachEngine(func(n *ck.Node, id uint64, e *tsm1.Engine) {
			if _, _, err := e.VCompact("full"); err != nil {
				panic("compact: " + err.Error())
			}
		})
	}
	if l.mode == 4 {
		for _, n := range c.Nodes {
			if err := n.Reopen(); err != nil {
				panic("reopen: " + err.Error())
			}
		}
	}
	if l.late {
		if _, err := c.AddNode(); err != nil {
			panic(err)
		}
	}
	if l.copyTo {
		rpi, _ := c.Data.RetentionPolicy(ck.DB, ck.RP)
		k := 0
		for _, g := range rpi.ShardGroups {
			for _, s := range g.Shards {
				k++
				if k%2 == 0 && !s.OwnedBy(uint64(l.nodes)) && len(s.Owners) > 0 && c.Nodes[s.Owners[0].NodeID-1].Store.Shard(s.ID) != nil {
					if err := c.CopyShard(s.ID, int(s.Owners[0].NodeID-1), l.nodes-1); err != nil {
						panic("copy shard: " + err.Error())
					}
				}
			}
		}
	}
	return c
}

func renderRows(rows []ck.Row) string {
	var res []resSeries
	for _, r := range rows {
		var tags []string
		for k, v := range r.Tags {
			tags = append(tags, k+"="+v)
		}
		sort.Strings(tags)
		s := resSeries{tags: strings.Join(tags, ","), cols: r.Columns}
		for _, vals := range r.Values {
			row := resRow{t: vals[0].(time.Time).UnixNano()}
			for _, v := range vals[1:] {
				row.vals = append(row.vals, fmtVal(v))
			}
			s.rows = append(s.rows, row)
		}
		res = append(res, s)
	}
	return render(res)
}

// runAll runs every statement on the layout.
func runAll(t *testing.T, l layout, hist []int, stmts []stmt, lvl []int, level int) []string {
	out := make([]string, len(stmts))
	synctest.Test(t, func(t *testing.T) {
		dir, _ := os.MkdirTemp("/dev/shm", "verif-c11-")
		c := build(l, hist, dir)
		defer c.Close()
		for i, s := range stmts {
			if lvl[i] > level {
				continue
			}
			rows, err := ck.QueryRows(c.Nodes[l.coord].Mapper, s.SQL())
			if err != nil {
				out[i] = "ERROR: " + err.Error()
				continue
			}
			out[i] = renderRows(rows)
		}
	})
	return out
}

var (
	cacheMu  sync.Mutex
	cacheKey string
	cacheVal []string
)

func histories(maxLen int) [][]int {
	var out [][]int
	var rec func(cur []int)
	rec = func(cur []int) {
		if len(cur) > 0 {
			out = append(out, append([]int{}, cur...))
		}
		if len(cur) == maxLen {
			return
		}
		for b := range batches {
			rec(append(cur, b))
		}
	}
	rec(nil)
	sort.SliceStable(out, func(a, b int) bool { return len(out[a]) < len(out[b]) })
	return out
}

func histName(h []int) string {
	var n []string
	for _, b := range h {
		n = append(n, batches[b].name)
	}
	return strings.Join(n, ">")
}

func body(t *testing.T, thorough bool) func(tp *explore.Tape) explore.Outcome {
	ls := layouts(thorough)
	stmts, lvl := statements()
	maxLen, top := 2, 1
	if thorough {
		maxLen, top = 3, 2
	}
	hs := histories(maxLen)
	return func(tp *explore.Tape) (out explore.Outcome) {
		h := hs[tp.ChooseFree(len(hs), "history")]
		li := tp.ChooseFree(len(ls), "layout")
		l := ls[li]
		key := fmt.Sprint(h)
		cacheMu.Lock()
		var baseRes []string
		if cacheKey == key {
			baseRes = cacheVal
		}
		cacheMu.Unlock()
		if baseRes == nil {
			baseRes = runAll(t, ls[0], h, stmts, lvl, top)
			cacheMu.Lock()
			cacheKey, cacheVal = key, baseRes
			cacheMu.Unlock()
		}
		out.Detail = fmt.Sprintf("history=%s layout=[%s]", histName(h), l)
		m := model{}
		for _, b := range h {
			m.apply(batches[b].lines)
		}
		// a finding that is already recorded must not hide another one: prefer the first other class
		report := func(sig, what, sql string) {
			if out.Violation != "" && !(strings.HasSuffix(out.Sig, ":slimit") && !strings.HasSuffix(sig, ":slimit")) {
				return
			}
			out.Violation, out.Sig = what, sig
			out.Detail = fmt.Sprintf("history=%s layout=[%s] statement=%s", histName(h), l, sql)
		}
		if li == 0 {
			// oracle 1: reference evaluation
			defined, skipped := 0, 0
			for i, s := range stmts {
				if lvl[i] > top {
					continue
				}
				out.Steps++
				want, err := m.eval(s)
				if err != nil {
					skipped++
					continue
				}
				defined++
				if w := render(want); w != baseRes[i] {
					report("reference:"+classOf(s), fmt.Sprintf("the rows differ from the reference evaluation over the raw points\nstatement: %s\ngot:\n%sreference:\n%s", s.SQL(), baseRes[i], w), s.SQL())
				}
			}
			out.Obs = fmt.Sprintf("reference: defined>0=%v skipped>0=%v agrees=%v", defined > 0, skipped > 0, out.Violation == "")
			return out
		}
		level := grammarLevel(l, len(h), thorough)
		got := runAll(t, l, h, stmts, lvl, level)
		diff := 0
		for i, s := range stmts {
			if lvl[i] > level {
				continue
			}
			out.Steps++
			if got[i] == baseRes[i] {
				continue
			}
			if s.fn == "" && (s.limit > 0 || s.offset > 0) {
				// rows of equal time cut by limit/offset: skip when the reference calls it ambiguous
				if _, err := m.eval(s); err == errTieAmbiguous {
					continue
				}
			}
			diff++
			report("layout:"+layoutClass(l)+":"+classOf(s), fmt.Sprintf("the rows depend on the physical layout\nstatement: %s\nthis layout:\n%sbase layout (one node, 1h shards, cache only):\n%s", s.SQL(), got[i], baseRes[i]), s.SQL())
		}
		out.Obs = fmt.Sprintf("layout-class=%s grammar-level=%d differing=%v", layoutClass(l), level, diff > 0)
		return out
	}
}

func layoutClass(l layout) string {
	if l.nodes == 1 {
		return "single-node"
	}
	return "cluster"
}

func classOf(s stmt) string {
	if s.slimit > 0 {
		return "slimit"
	}
	k := "raw"
	if s.fn != "" {
		k = s.fn + "(" + fieldTypes[s.fields[0]] + ")"
	}
	if s.tg != 0 {
		k += ":time-grouped"
		if s.fill != 0 {
			k += ":" + fillNames[s.fill]
		}
	}
	if s.desc {
		k += ":desc"
	}
	return k
}

func TestCheck(t *testing.T) {
	thorough := report.Tier() == "thorough"
	if explore.WorkerScenario() != "" {
		explore.WorkerLoop(body(t, thorough))
		return
	}
	c := report.Begin("C11", "model_checking")
	c.Rule = "one execution = one (write history, physical layout) pair built from real stores / cluster components in a synctest bubble, on which every statement of the bounded grammar is run; base-layout rows are compared with an independent reference evaluation, every other layout with the base layout; distinct = (layout class, differs?) and reference coverage classes"
	c.Assumptions = []string{
		"float values are dyadic rationals of small magnitude and floats are compared to 10 significant digits (summation order differs legitimately between layouts)",
		"rows of equal timestamp inside one result series are compared as a set; a LIMIT/OFFSET cutting through such rows is skipped",
		"the reference does not define fill(previous)/fill(linear) under ORDER BY time DESC, fill(linear) on integers, numeric fill on strings/booleans: those statements are decided by the layout comparison only",
		"meta client is a thin view over a real meta.Data; remote calls of the mapper run in call order (completion orders are enumerated by C05)",
	}
	b := body(t, c.Thorough())
	if *replayFile != "" {
		rp, err := report.LoadReplay(*replayFile)
		if err != nil {
			t.Fatal(err)
		}
		out, _ := explore.Replay(rp.Tape, b)
		fmt.Printf("outcome: %+v\n", out)
		if out.Violation != "" {
			report.ExitCode = 1
		}
		return
	}
	deadline, budget := 20*time.Minute, 8
	if c.Thorough() {
		deadline, budget = 150*time.Minute, 32
	}
	r := explore.ExploreProcs(explore.ProcConfig{Scenario: "layouts", Bound: -1, Procs: 16, Budget: budget, Deadline: deadline, Env: []string{"GOMAXPROCS=2"}})
	c.AddExplore("history x layout x statement", r, map[string]any{"scenario": "layouts", "statements_by_grammar_level": levelCounts(), "layouts": len(layouts(c.Thorough()))})
	report.ExitCode = c.Finish()
}

func levelCounts() map[string]int {
	_, lvl := statements()
	c := map[string]int{}
	for _, l := range lvl {
		for k := l; k <= 2; k++ {
			c[[]string{"light", "quick", "thorough"}[k]]++
		}
	}
	return c
}

func TestMain(m *testing.M) { flag.Parse(); report.Main(m.Run) }
