package c11

import (
	"fmt"
	"os"
	"testing"
	"time"
)

// TestCalibrate (VERIF_CALIBRATE=1) lists every class of disagreement between
// the reference evaluation and the base layout for a few rich histories.
func TestCalibrate(t *testing.T) {
	if os.Getenv("VERIF_CALIBRATE") == "" {
		t.Skip()
	}
	stmts, lvl := statements()
	ls := layouts(true)
	for _, h := range [][]int{{0, 1, 2}, {5, 3, 4}, {0, 3, 1}} {
		start := time.Now()
		res := runAll(t, ls[0], h, stmts, lvl, 2)
		fmt.Printf("history %s: %d statements in %s\n", histName(h), len(stmts), time.Since(start))
		m := model{}
		for _, b := range h {
			m.apply(batches[b].lines)
		}
		seen := map[string]int{}
		skipped := 0
		for i, s := range stmts {
			want, err := m.eval(s)
			if err != nil {
				skipped++
				continue
			}
			if w := render(want); w != res[i] {
				c := classOf(s)
				seen[c]++
				if seen[c] <= 1 {
					fmt.Printf("--- %s\n%s\ngot:\n%swant:\n%s", c, s.SQL(), res[i], w)
				}
			}
		}
		fmt.Printf("skipped=%d mismatch classes: %v\n", skipped, seen)
	}
}

func TestLevels(t *testing.T) {
	if os.Getenv("VERIF_CALIBRATE") == "" {
		t.Skip()
	}
	fmt.Println("LEVELS", levelCounts(), "layouts quick", len(layouts(false)), "thorough", len(layouts(true)))
}
