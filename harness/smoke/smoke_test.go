package smoke

import (
	"testing"
	"testing/synctest"
	"time"

	"github.com/influxdata/influxdb/models"
	_ "github.com/influxdata/influxdb/tsdb/engine"
	_ "github.com/influxdata/influxdb/tsdb/index"
	_ "github.com/influxdata/influxdb/coordinator"
	_ "github.com/influxdata/influxdb/services/meta"
	_ "github.com/influxdata/influxdb/services/hh"
)

func TestSmoke(t *testing.T) {
	synctest.Test(t, func(t *testing.T) {
		time.Sleep(time.Hour)
		p, err := models.ParsePointsString("m v=1 1")
		t.Log(p, err)
	})
}
