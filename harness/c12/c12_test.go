// C12: line protocol and binary point encoding are faithful.
//
// Bounded-exhaustive input enumeration on the real parser/encoder:
//
//	(i)   every byte string of length <= L over a 16-symbol alphabet;
//	(ii)  every sequence of <= K tokens of a token alphabet (plus tag permutations);
//	(iii) every abstract point over small alphabets of awkward names/values,
//	      serialised by an independent escaper;
//	(iv)  binary points enumerated by frame structure;
//	(v)   line independence (pairs) and precision scaling.
package c12

import (
	"bytes"
	"encoding/binary"
	"flag"
	"fmt"
	"hash/fnv"
	"math"
	"sort"
	"strings"
	"sync"
	"testing"
	"time"

	"github.com/influxdata/influxdb/models"

	"verif/mc/report"
)

var replayInput = flag.String("replay", "", "replay file")

var sigma = []byte{'m', ',', ' ', '=', '\\', '"', '1', '-', '.', 'i', 'u', 't', 'e', '\n', '#', 0x80}

type result struct {
	evals      int64
	accepted   int64
	distinct   map[string]bool
	viol       map[string][2]string // sig -> (what, input)
	acceptedS  []string
	fixedClass string
}

func newResult() *result { return &result{distinct: map[string]bool{}, viol: map[string][2]string{}} }

func (r *result) merge(o *result) {
	r.evals += o.evals
	r.accepted += o.accepted
	for k := range o.distinct {
		r.distinct[k] = true
	}
	for k, v := range o.viol {
		if old, ok := r.viol[k]; !ok || len(v[1]) < len(old[1]) || (len(v[1]) == len(old[1]) && v[1] < old[1]) {
			r.viol[k] = v
		}
	}
	r.acceptedS = append(r.acceptedS, o.acceptedS...)
}

func (r *result) bad(oracle, input, what string) {
	cls := class(input)
	if r.fixedClass != "" {
		cls = r.fixedClass
	}
	sig := oracle + ":" + cls
	if old, ok := r.viol[sig]; !ok || len(input) < len(old[1]) {
		r.viol[sig] = [2]string{what, input}
	}
}

// class maps an offending input to a coarse class so that known findings can
// be keyed by the kind of input, not by the input.
func class(in string) string {
	line := strings.TrimRight(in, "\n")
	switch {
	case strings.Contains(in, "\\\n"):
		return "backslash-before-newline"
	case strings.HasSuffix(line, `"\`) || strings.Contains(in, "\"\\\n") || strings.Contains(in, "\"\\ "):
		return "string-field-then-backslash"
	case strings.Contains(in, "\"") && strings.Contains(in, "\n") && strings.Index(in, "\"") < strings.Index(in, "\n") && strings.Count(in, "\"")%2 == 1:
		return "unbalanced-quote-spanning-newline"
	}
	var b strings.Builder
	var last byte
	for i := 0; i < len(in); i++ {
		c := in[i]
		switch {
		case c >= 'a' && c <= 'z' || c >= 'A' && c <= 'Z':
			c = 'a'
		case c >= '0' && c <= '9':
			c = '1'
		case c >= 0x80:
			c = 'x'
		case c == '\n':
			c = 'N'
		}
		if c == last && (c == 'a' || c == '1') {
			continue
		}
		b.WriteByte(c)
		last = c
	}
	return "shape[" + b.String() + "]"
}

type fieldVal struct {
	typ  models.FieldType
	bits uint64
	str  string
}

func fieldsOf(p models.Point) (map[string]fieldVal, error) {
	out := map[string]fieldVal{}
	it := p.FieldIterator()
	for it.Next() {
		k := string(it.FieldKey())
		var v fieldVal
		v.typ = it.Type()
		switch v.typ {
		case models.Float:
			f, err := it.FloatValue()
			if err != nil {
				return nil, err
			}
			v.bits = math.Float64bits(f)
		case models.Integer:
			n, err := it.IntegerValue()
			if err != nil {
				return nil, err
			}
			v.bits = uint64(n)
		case models.Unsigned:
			n, err := it.UnsignedValue()
			if err != nil {
				return nil, err
			}
			v.bits = n
		case models.Boolean:
			bv, err := it.BooleanValue()
			if err != nil {
				return nil, err
			}
			if bv {
				v.bits = 1
			}
		case models.String:
			v.str = it.StringValue()
		default:
			return nil, fmt.Errorf("field %q has no type", k)
		}
		out[k] = v
	}
	return out, nil
}

func samePoint(p, q models.Point) string {
	if !bytes.Equal(p.Key(), q.Key()) {
		return fmt.Sprintf("series key %q vs %q", p.Key(), q.Key())
	}
	if !p.Time().Equal(q.Time()) {
		return fmt.Sprintf("time %d vs %d", p.Time().UnixNano(), q.Time().UnixNano())
	}
	fp, err1 := fieldsOf(p)
	fq, err2 := fieldsOf(q)
	if err1 != nil || err2 != nil {
		return fmt.Sprintf("fields unreadable: %v / %v", err1, err2)
	}
	if len(fp) != len(fq) {
		return fmt.Sprintf("field count %d vs %d", len(fp), len(fq))
	}
	for k, v := range fp {
		if w, ok := fq[k]; !ok || v != w {
			return fmt.Sprintf("field %q: %+v vs %+v", k, v, w)
		}
	}
	return ""
}

var epoch = time.Unix(0, 1500000000000000000).UTC()

func parse(in []byte) (pts []models.Point, err error, panicked interface{}) {
	defer func() {
		if r := recover(); r != nil {
			panicked = r
		}
	}()
	pts, err = models.ParsePointsWithPrecision(in, epoch, "ns")
	return
}

// checkInput applies the per-input oracles.
func checkInput(r *result, in []byte, keepAccepted bool) {
	r.evals++
	// the parser may modify its input (in-place tag sort): work on a copy
	buf := append([]byte(nil), in...)
	pts, err, pn := parse(buf)
	s := string(in)
	if pn != nil {
		r.bad("parser-panic", s, fmt.Sprint("parser panicked: ", pn))
		return
	}
	if len(pts) == 0 {
		if err != nil {
			r.distinct["rejected"] = true
		} else {
			r.distinct["empty"] = true
		}
		return
	}
	r.accepted++
	r.distinct[fmt.Sprintf("accepted:%d-points:err=%v", len(pts), err != nil)] = true
	if keepAccepted && err == nil && len(pts) == 1 && !bytes.Contains(in, []byte("\n")) {
		r.acceptedS = append(r.acceptedS, s)
	}
	for _, p := range pts {
		func() {
			defer func() {
				if x := recover(); x != nil {
					r.bad("accessor-panic", s, fmt.Sprint("accessor panicked on an accepted point: ", x))
				}
			}()
			if _, err := fieldsOf(p); err != nil {
				r.bad("accepted-unreadable-fields", s, "accepted point has unreadable fields: "+err.Error())
				return
			}
			if len(p.Name()) == 0 {
				r.bad("accepted-empty-measurement", s, "accepted point has an empty measurement")
			}
			// text round trip
			txt := p.String()
			again, err2, pn2 := parse([]byte(txt))
			if pn2 != nil {
				r.bad("roundtrip-panic", s, fmt.Sprint("parser panicked on String() output: ", pn2))
				return
			}
			if err2 != nil || len(again) != 1 {
				r.bad("text-roundtrip", s, fmt.Sprintf("String() of an accepted point %q does not parse back to one point (%d points, err %v)", txt, len(again), err2))
			} else if d := samePoint(p, again[0]); d != "" {
				r.bad("text-roundtrip", s, fmt.Sprintf("String() of an accepted point %q parses back to a different point: %s", txt, d))
			} else if t2 := again[0].String(); t2 != txt {
				r.bad("text-fixedpoint", s, fmt.Sprintf("String() is not a fixed point: %q then %q", txt, t2))
			}
			// binary round trip
			b, err3 := p.MarshalBinary()
			if err3 != nil {
				r.bad("binary-marshal", s, "MarshalBinary failed: "+err3.Error())
				return
			}
			q, err4 := models.NewPointFromBytes(b)
			if err4 != nil {
				r.bad("binary-roundtrip", s, "NewPointFromBytes(MarshalBinary(p)) failed: "+err4.Error())
			} else if d := samePoint(p, q); d != "" {
				r.bad("binary-roundtrip", s, "binary round trip changes the point: "+d)
			}
			// key is canonical: tags sorted, no duplicates
			tags := p.Tags()
			for i := 1; i < len(tags); i++ {
				if bytes.Compare(tags[i-1].Key, tags[i].Key) >= 0 {
					r.bad("tags-not-canonical", s, fmt.Sprintf("accepted point has unsorted or duplicate tag keys: %v", tags))
				}
			}
			h := fnv.New64a()
			h.Write(p.Key())
			if h.Sum64() != p.HashID() {
				r.bad("hashid", s, "HashID is not FNV-1a of the series key")
			}
		}()
	}
}

func enumStrings(L int, workers int, keep bool) *result {
	total := newResult()
	var mu sync.Mutex
	var wg sync.WaitGroup
	jobs := make(chan []byte, 512)
	for w := 0; w < workers; w++ {
		wg.Add(1)
		go func() {
			defer wg.Done()
			r := newResult()
			buf := make([]byte, 0, L)
			var rec func(prefix []byte, left int)
			rec = func(prefix []byte, left int) {
				checkInput(r, prefix, keep)
				if left == 0 {
					return
				}
				for _, c := range sigma {
					rec(append(prefix, c), left-1)
				}
			}
			for p := range jobs {
				buf = append(buf[:0], p...)
				rec(buf, L-len(p))
			}
			mu.Lock()
			total.merge(r)
			mu.Unlock()
		}()
	}
	// prefixes of length 2 are the jobs; shorter strings are checked here
	r0 := newResult()
	checkInput(r0, nil, keep)
	for _, a := range sigma {
		checkInput(r0, []byte{a}, keep)
		for _, b := range sigma {
			jobs <- []byte{a, b}
		}
	}
	close(jobs)
	wg.Wait()
	total.merge(r0)
	return total
}

// ---- (ii) token sequences

var tokMeasure = []string{"m", `m\ x`, `m\,x`, `"m"`, `m=`, ``}
var tokTag = []string{",a=b", `,a\ k=b\,v`, ",b=c", ",a=", ",=b", ",a=b=c", `,c=d\`}
var tokField = []string{" v=1", " v=1i", " v=1u", " v=-1.5e3", ` v="s"`, ` v="a\"b\\"`, " v=t", " v=F", " v=9223372036854775807i", " v=9223372036854775808i",
	" v=-9223372036854775808i", " v=18446744073709551615u", " v=1.7976931348623157e308", " v=1e309", " v=NaN", " v=.5", " v=5.", " v=-0", " v=0x1", ` v=""`, " =1", ` v="`, " v=1,w=2i", " v=1,v=2", ",w=t"}
var tokTime = []string{"", " 1", " -1", " 9223372036854775807", " 9223372036854775808", " -9223372036854775808", " 1.5", " x", "  2", " 1 "}

func enumTokens(c *report.Check, maxTags int) *result {
	total := newResult()
	var mu sync.Mutex
	var wg sync.WaitGroup
	sem := make(chan struct{}, 16)
	var tagSeqs [][]int
	var rec func(cur []int)
	rec = func(cur []int) {
		tagSeqs = append(tagSeqs, append([]int(nil), cur...))
		if len(cur) == maxTags {
			return
		}
		for i := range tokTag {
			rec(append(cur, i))
		}
	}
	rec(nil)
	for _, m := range tokMeasure {
		m := m
		wg.Add(1)
		sem <- struct{}{}
		go func() {
			defer wg.Done()
			defer func() { <-sem }()
			r := newResult()
			for _, ts := range tagSeqs {
				var tg strings.Builder
				for _, i := range ts {
					tg.WriteString(tokTag[i])
				}
				for _, f := range tokField {
					for f2i := -1; f2i < len(tokField); f2i++ {
						ff := f
						if f2i >= 0 {
							if !strings.HasPrefix(tokField[f2i], ",") {
								continue
							}
							ff += tokField[f2i]
						}
						for _, tm := range tokTime {
							line := m + tg.String() + ff + tm
							checkInput(r, []byte(line), false)
							// tag permutation invariance
							if len(ts) >= 2 {
								var rev strings.Builder
								for k := len(ts) - 1; k >= 0; k-- {
									rev.WriteString(tokTag[ts[k]])
								}
								l2 := m + rev.String() + ff + tm
								p1, e1, _ := parse([]byte(line))
								p2, e2, _ := parse([]byte(l2))
								if (e1 == nil) != (e2 == nil) || len(p1) != len(p2) {
									r.bad("tag-order-acceptance", line, fmt.Sprintf("acceptance depends on tag order: %q -> %v, %q -> %v", line, e1, l2, e2))
								} else if len(p1) == 1 {
									if !bytes.Equal(p1[0].Key(), p2[0].Key()) || p1[0].HashID() != p2[0].HashID() {
										r.bad("tag-order-key", line, fmt.Sprintf("series key/hash depends on tag order: %q vs %q", p1[0].Key(), p2[0].Key()))
									}
								}
							}
						}
					}
				}
			}
			mu.Lock()
			total.merge(r)
			mu.Unlock()
		}()
	}
	wg.Wait()
	return total
}

// ---- (iii) constructive direction with an independent escaper

func escMeasurement(s string) string {
	return strings.NewReplacer(",", `\,`, " ", `\ `).Replace(s)
}
func escTag(s string) string {
	return strings.NewReplacer(",", `\,`, " ", `\ `, "=", `\=`).Replace(s)
}
func escString(s string) string {
	return strings.NewReplacer(`\`, `\\`, `"`, `\"`).Replace(s)
}

var names = []string{"m", "m m", "m,m", "m=m", `m"m`, "é", `a\b`, "m\tm", "#m"}
var strVals = []string{"", "s", `a"b`, `a\b`, "a b", "a,b", "a=b", "line\nbreak", `\\`, `"`}

func enumConstructive() *result {
	r := newResult()
	r.fixedClass = "constructed-line"
	for _, meas := range names {
		if strings.HasPrefix(meas, "#") {
			continue // a line starting with # is a comment
		}
		for _, tk := range append([]string{""}, names...) {
			for _, tv := range names {
				for _, fk := range names {
					for _, sv := range strVals {
						line := escMeasurement(meas)
						if tk != "" {
							line += "," + escTag(tk) + "=" + escTag(tv)
						}
						line += " " + escTag(fk) + `="` + escString(sv) + `" 7`
						r.evals++
						pts, err, pn := parse([]byte(line))
						if pn != nil {
							r.bad("constructive-panic", line, fmt.Sprint(pn))
							continue
						}
						if err != nil || len(pts) != 1 {
							r.bad("valid-line-rejected", line, fmt.Sprintf("a valid line is not accepted as one point: %q (%d points, %v)", line, len(pts), err))
							continue
						}
						p := pts[0]
						r.distinct["constructive-ok"] = true
						if string(p.Name()) != meas {
							r.bad("constructive-measurement", line, fmt.Sprintf("measurement %q parsed as %q", meas, p.Name()))
						}
						tags := p.Tags()
						if tk == "" && len(tags) != 0 || tk != "" && (len(tags) != 1 || string(tags[0].Key) != tk || string(tags[0].Value) != tv) {
							r.bad("constructive-tags", line, fmt.Sprintf("tag %q=%q parsed as %v", tk, tv, tags))
						}
						f, ferr := p.Fields()
						if ferr != nil || len(f) != 1 || f[fk] != sv {
							r.bad("constructive-field", line, fmt.Sprintf("field %q=%q parsed as %v (%v)", fk, sv, f, ferr))
						}
						if p.Time().UnixNano() != 7 {
							r.bad("constructive-time", line, "timestamp lost")
						}
						checkInput(r, []byte(line), false)
					}
				}
			}
		}
	}
	// numeric forms mean what they say
	type num struct {
		lit  string
		want fieldVal
	}
	nums := []num{
		{"1", fieldVal{typ: models.Float, bits: math.Float64bits(1)}}, {"-1.5e3", fieldVal{typ: models.Float, bits: math.Float64bits(-1500)}},
		{"1i", fieldVal{typ: models.Integer, bits: 1}}, {"-9223372036854775808i", fieldVal{typ: models.Integer, bits: 1 << 63}},
		{"9223372036854775807i", fieldVal{typ: models.Integer, bits: math.MaxInt64}}, {"t", fieldVal{typ: models.Boolean, bits: 1}}, {"false", fieldVal{typ: models.Boolean}},
		{"4.9e-324", fieldVal{typ: models.Float, bits: 1}}, {"1.7976931348623157e308", fieldVal{typ: models.Float, bits: math.Float64bits(math.MaxFloat64)}}, {"-0", fieldVal{typ: models.Float, bits: math.Float64bits(math.Copysign(0, -1))}},
	}
	for _, n := range nums {
		line := "m v=" + n.lit + " 1"
		r.evals++
		pts, err, _ := parse([]byte(line))
		if err != nil || len(pts) != 1 {
			r.bad("valid-line-rejected", line, fmt.Sprintf("valid numeric line rejected: %q: %v", line, err))
			continue
		}
		f, _ := fieldsOf(pts[0])
		if f["v"] != n.want {
			r.bad("numeric-value", line, fmt.Sprintf("%q parsed as %+v, expected %+v", n.lit, f["v"], n.want))
		}
	}
	// precision scaling
	for _, pr := range []struct {
		p string
		m int64
	}{{"ns", 1}, {"n", 1}, {"u", 1e3}, {"ms", 1e6}, {"s", 1e9}, {"m", 60e9}, {"h", 3600e9}} {
		for _, ts := range []int64{0, 1, -1, 17, 2562047} {
			line := fmt.Sprintf("m v=1 %d", ts)
			r.evals++
			pts, err := models.ParsePointsWithPrecision([]byte(line), epoch, pr.p)
			if err != nil || len(pts) != 1 {
				r.bad("precision-rejected", line, fmt.Sprintf("precision %s: %v", pr.p, err))
				continue
			}
			if got := pts[0].Time().UnixNano(); got != ts*pr.m {
				r.bad("precision-scaling", pr.p, fmt.Sprintf("timestamp %d at precision %q became %d ns, expected %d", ts, pr.p, got, ts*pr.m))
			}
			r.distinct["precision:"+pr.p] = true
		}
	}
	return r
}

// ---- (iv) binary points by frame structure

func enumBinary(fldLen int) *result {
	r := newResult()
	keyAlpha := []byte{'m', ',', '=', ' ', '\\'}
	fldAlpha := []byte{'a', '=', '1', 'i', '"', ',', 't'}
	var keys, flds [][]byte
	var gen func(alpha []byte, max int, cur []byte, out *[][]byte)
	gen = func(alpha []byte, max int, cur []byte, out *[][]byte) {
		*out = append(*out, append([]byte(nil), cur...))
		if len(cur) == max {
			return
		}
		for _, c := range alpha {
			gen(alpha, max, append(cur, c), out)
		}
	}
	gen(keyAlpha, 3, nil, &keys)
	gen(fldAlpha, fldLen, nil, &flds)
	tm, _ := time.Unix(0, 42).UTC().MarshalBinary()
	times := [][]byte{tm, nil, tm[:1], tm[:len(tm)-1], {0xff, 0xff, 0xff}}
	lens := func(true_ int) []uint32 {
		out := []uint32{0, uint32(true_), uint32(true_ + 1), 0xffffffff}
		if true_ > 0 {
			out = append(out, uint32(true_-1))
		}
		return out
	}
	for _, k := range keys {
		for _, kl := range lens(len(k)) {
			for _, f := range flds {
				for _, fl := range lens(len(f)) {
					for ti, t := range times {
						b := make([]byte, 0, 32)
						var n [4]byte
						binary.BigEndian.PutUint32(n[:], kl)
						b = append(b, n[:]...)
						b = append(b, k...)
						binary.BigEndian.PutUint32(n[:], fl)
						b = append(b, n[:]...)
						b = append(b, f...)
						b = append(b, t...)
						r.evals++
						func() {
							stage := "NewPointFromBytes"
							defer func() {
								if x := recover(); x != nil {
									r.fixedClass = stage
									r.bad("binary-decode-panic", fmt.Sprintf("keylen=%s fieldslen=%s key=%q fields=%q time#%d", lk(kl, len(k)), lk(fl, len(f)), k, f, ti), fmt.Sprintf("NewPointFromBytes or an accessor panicked: %v (bytes %x)", x, b))
								}
							}()
							p, err := models.NewPointFromBytes(b)
							if err != nil {
								r.distinct["binary-rejected"] = true
								return
							}
							r.distinct["binary-accepted"] = true
							stage = "Key/Name/Tags"
							p.Key()
							p.Name()
							p.Tags()
							stage = "Fields"
							p.Fields()
							stage = "FieldIterator"
							fieldsOf(p)
							stage = "Time/String/HashID/MarshalBinary"
							p.Time()
							_ = p.String()
							p.HashID()
							p.MarshalBinary()
						}()
					}
				}
			}
		}
	}
	return r
}

func lk(declared uint32, true_ int) string {
	switch {
	case declared == uint32(true_):
		return "true"
	case declared == 0:
		return "0"
	case declared == 0xffffffff:
		return "max"
	case declared > uint32(true_):
		return "true+1"
	}
	return "true-1"
}

// ---- (vi) tag order: the series key does not depend on the order tags are written in

// tagKeys: a short key, keys extending it by one byte on either side of the
// separators the tag sort looks at ('=' 0x3d, ',' 0x2c, ' ' 0x20, '\\' 0x5c), escaped
// separators, and unrelated keys.
var tagKeys = []string{"a", "a!", "a-", "a.", "a/", "a0", "a9", "a:", "a<", "a>", "a?", "aA", "aa", "a~", `a\=`, `a\,`, `a\ `, "b", "ab", "B", "a-b", "a-"+"-"}

func enumTagOrder(maxTags int) *result {
	r := newResult()
	r.fixedClass = "tag-order"
	var rec func(cur []int)
	check := func(keys []int) {
		// canonical form: the same tags written in every order
		var first []byte
		var firstLine string
		var idx []int
		var perm func(k int)
		used := make([]bool, len(keys))
		perm = func(k int) {
			if k == len(keys) {
				line := "m"
				for _, i := range idx {
					line += "," + tagKeys[keys[i]] + "=v" + fmt.Sprint(keys[i])
				}
				line += " f=1 1"
				r.evals++
				pts, err, pn := parse([]byte(line))
				if pn != nil {
					r.bad("tag-order-panic", line, fmt.Sprint(pn))
					return
				}
				if err != nil || len(pts) != 1 {
					r.bad("valid-line-rejected", line, fmt.Sprintf("a valid line is not accepted as one point: %q (%v)", line, err))
					return
				}
				r.distinct[fmt.Sprintf("tags:%d", len(keys))] = true
				key := append([]byte(nil), pts[0].Key()...)
				if first == nil {
					first, firstLine = key, line
				} else if !bytes.Equal(first, key) {
					r.bad("tag-order-key", line, fmt.Sprintf("the series key depends on the order the tags are written in: %q gives %q, %q gives %q", firstLine, first, line, key))
				}
				// keys without escapes: ascending byte order in the series key
				tags := pts[0].Tags()
				plain := true
				for _, t := range tags {
					if bytes.ContainsAny(t.Key, "=, ") {
						plain = false
					}
				}
				for i := 1; plain && i < len(tags); i++ {
					if bytes.Compare(tags[i-1].Key, tags[i].Key) >= 0 {
						r.bad("tag-order-key", line, fmt.Sprintf("tags of %q are not in ascending key order: %v", line, tags))
						break
					}
				}
				return
			}
			for i := range keys {
				if !used[i] {
					used[i] = true
					idx = append(idx, i)
					perm(k + 1)
					idx = idx[:len(idx)-1]
					used[i] = false
				}
			}
		}
		perm(0)
	}
	rec = func(cur []int) {
		if len(cur) >= 2 {
			check(cur)
		}
		if len(cur) == maxTags {
			return
		}
		start := 0
		if len(cur) > 0 {
			start = cur[len(cur)-1] + 1
		}
		for i := start; i < len(tagKeys); i++ {
			rec(append(cur, i))
		}
	}
	rec(nil)
	return r
}

// ---- (v) line independence

func enumIndependence(accepted []string, shortL int) *result {
	r := newResult()
	sort.Strings(accepted)
	var short [][]byte
	var rec func(cur []byte)
	rec = func(cur []byte) {
		if !bytes.Contains(cur, []byte("\n")) && !bytes.Contains(cur, []byte("\"")) {
			short = append(short, append([]byte(nil), cur...))
		}
		if len(cur) == shortL {
			return
		}
		for _, c := range sigma {
			rec(append(cur, c))
		}
	}
	rec(nil)
	// quotes are excluded from the neighbour lines: a quoted string may legally contain a newline
	var mu sync.Mutex
	var wg sync.WaitGroup
	jobs := make(chan string, 256)
	for w := 0; w < 16; w++ {
		wg.Add(1)
		go func() {
			defer wg.Done()
			lr := newResult()
			for a := range jobs {
				independenceOne(lr, a, short)
			}
			mu.Lock()
			r.merge(lr)
			mu.Unlock()
		}()
	}
	for _, a := range accepted {
		if !strings.Contains(a, "\"") {
			jobs <- a
		}
	}
	close(jobs)
	wg.Wait()
	return r
}

func independenceOne(r *result, a string, short [][]byte) {
	pa, _, _ := parse([]byte(a))
	if len(pa) != 1 {
		return
	}
	for _, b := range short {
		for order := 0; order < 2; order++ {
			var in []byte
			if order == 0 {
				in = []byte(a + "\n" + string(b))
			} else {
				in = []byte(string(b) + "\n" + a)
			}
			r.evals++
			pts, _, pn := parse(in)
			if pn != nil {
				r.bad("independence-panic", string(in), fmt.Sprint(pn))
				continue
			}
			pb, _, _ := parse(append([]byte(nil), b...))
			want := 1 + len(pb)
			if len(pts) != want {
				r.bad("line-independence", string(in), fmt.Sprintf("parsing %q yields %d points, the lines parsed separately yield %d", in, len(pts), want))
				continue
			}
			idx := 0
			if order == 1 {
				idx = len(pts) - 1
			}
			if d := samePoint(pa[0], pts[idx]); d != "" {
				r.bad("line-independence", string(in), fmt.Sprintf("a valid line changes meaning next to %q: %s", b, d))
			}
			r.distinct[fmt.Sprintf("pair:%d", want)] = true
		}
	}
}

func TestCheck(t *testing.T) {
	c := report.Begin("C12", "exploration")
	c.Rule = "inputs are enumerated exhaustively per family (all strings <= L over 16 symbols; token sequences; constructive abstract points; binary frames; line pairs); distinct = outcome classes (rejected / accepted with n points / family classes); a violation is keyed by oracle + input class"
	c.Assumptions = []string{
		"small-scope: alphabets are chosen from the characters the scanner branches on (separators, escapes, quotes, numeric suffixes, newline, comment, non-UTF-8)",
		"default timestamp and precision ns unless the precision family says otherwise",
	}
	if *replayInput != "" {
		r := newResult()
		in := replayString(*replayInput)
		checkInput(r, []byte(in), false)
		fmt.Printf("input %q -> %v\n", in, r.viol)
		if len(r.viol) > 0 {
			report.ExitCode = 1
		}
		return
	}
	L := c.Pick(6, 7)
	rs := enumStrings(L, 16, true)
	emit := func(name string, r *result, exhaustive bool, extra map[string]any) {
		for sig, v := range r.viol {
			c.Violation(sig, v[0], map[string]any{"family": name, "input": v[1], "input_hex": fmt.Sprintf("%x", v[1])})
		}
		c.AddCount(name, r.evals, r.distinct, exhaustive, extra, firstN(r, 2)...)
	}
	emit(fmt.Sprintf("strings<=%d over sigma16", L), rs, true, map[string]any{"accepted": rs.accepted})
	emit("token-sequences", enumTokens(c, c.Pick(2, 3)), true, nil)
	emit("constructive", enumConstructive(), true, nil)
	emit("tag-order", enumTagOrder(c.Pick(3, 4)), true, nil)
	emit("binary-frames", enumBinary(c.Pick(3, 4)), true, nil)
	emit("line-independence", enumIndependence(rs.acceptedS, c.Pick(2, 3)), true, map[string]any{"accepted_lines": len(rs.acceptedS)})
	report.ExitCode = c.Finish()
}

func firstN(r *result, n int) []any {
	var out []any
	for i := 0; i < len(r.acceptedS) && i < n; i++ {
		out = append(out, r.acceptedS[i*len(r.acceptedS)/n])
	}
	if len(out) == 0 {
		for k := range r.distinct {
			out = append(out, k)
			if len(out) >= n {
				break
			}
		}
	}
	return out
}

func replayString(path string) string {
	tape, err := report.LoadInput(path)
	if err != nil {
		panic(err)
	}
	return tape
}

func TestMain(m *testing.M) { flag.Parse(); report.Main(m.Run) }
