//go:build verif

// Verification-only access to unexported entry points of the coordinator
// package. Injected by `go build -overlay`; it only calls existing code.
package coordinator

import "net"

// VHandleConn runs the real per-connection loop of the inter-node service.
func (s *Service) VHandleConn(c net.Conn) { s.handleConn(c) }

// VMuxHeader is the multiplexer header byte of the inter-node protocol.
const VMuxHeader = MuxHeader

// Message type values (for building frames).
const (
	VWriteShardRequest       = writeShardRequestMessage
	VExecuteStatementRequest = executeStatementRequestMessage
	VMeasurementNamesRequest = measurementNamesRequestMessage
	VTagKeysRequest          = tagKeysRequestMessage
	VTagValuesRequest        = tagValuesRequestMessage
	VCreateIteratorRequest   = createIteratorRequestMessage
	VIteratorCostRequest     = iteratorCostRequestMessage
	VFieldDimensionsRequest  = fieldDimensionsRequestMessage
	VMapTypeRequest          = mapTypeRequestMessage
	VExpandSourcesRequest    = expandSourcesRequestMessage
	VBackupShardRequest      = backupShardRequestMessage
	VCopyShardRequest        = copyShardRequestMessage
	VRemoveShardRequest      = removeShardRequestMessage
	VListShardsRequest       = listShardsRequestMessage
	VSeriesSketchesRequest   = seriesSketchesRequestMessage
	VLastMessage             = removeHintedHandoffResponseMessage
)
