//go:build verif

// Verification-only helpers for the tsm1 engine. Injected by `go build
// -overlay`; they only call existing code (the real planner, the real
// compaction strategies, the real file store).
package tsm1

import (
	"fmt"
	"sort"
	"sync/atomic"
)

// VSetBlockSize sets the number of points per block used by compactions.
func (e *Engine) VSetBlockSize(n int) { e.Compactor.Size = n }

// VCompact runs one compaction the way the background loop would, but
// synchronously. mode: "full" / "optimize" / "level" run the real compaction
// strategy over all current TSM files; "planned" asks the real planner for
// level 1-3, full and optimize plans and applies every group it returns.
// It returns the number of groups compacted and whether all succeeded.
func (e *Engine) VCompact(mode string) (groups int, ok bool, err error) {
	ok = true
	run := func(s *compactionStrategy) {
		before := atomic.LoadInt64(s.successStat)
		s.Apply()
		groups++
		if atomic.LoadInt64(s.successStat) == before {
			ok = false
		}
	}
	all := func() CompactionGroup {
		var names []string
		for _, f := range e.FileStore.Files() {
			names = append(names, f.Path())
		}
		sort.Strings(names)
		return CompactionGroup(names)
	}
	switch mode {
	case "full":
		if g := all(); len(g) > 0 {
			run(e.fullCompactionStrategy(g, false))
		}
	case "optimize":
		if g := all(); len(g) > 0 {
			run(e.fullCompactionStrategy(g, true))
		}
	case "level":
		if g := all(); len(g) > 0 {
			run(e.levelCompactionStrategy(g, true, 1))
		}
	case "planned":
		for level := 1; level <= 3; level++ {
			gs := e.CompactionPlan.PlanLevel(level)
			for _, g := range gs {
				run(e.levelCompactionStrategy(g, level == 3, level))
			}
			e.CompactionPlan.Release(gs)
		}
		gs := e.CompactionPlan.Plan(e.LastModified())
		if len(gs) == 0 {
			gs = e.CompactionPlan.PlanOptimize()
			for _, g := range gs {
				run(e.fullCompactionStrategy(g, true))
			}
		} else {
			for _, g := range gs {
				run(e.fullCompactionStrategy(g, false))
			}
		}
		e.CompactionPlan.Release(gs)
	default:
		return 0, false, fmt.Errorf("unknown compaction mode %q", mode)
	}
	return groups, ok, nil
}

// VCompactFullInFlight starts a full compaction of all current TSM files the
// way Engine.compactFull does - as a goroutine registered in the engine's
// compaction wait group, so that disableLevelCompactions(true) waits for it and
// Compactor.DisableCompactions aborts it - and returns a channel that is closed
// when it has ended. It returns nil when compactions are disabled.
func (e *Engine) VCompactFullInFlight() <-chan struct{} {
	e.mu.RLock()
	wg := e.wg
	e.mu.RUnlock()
	if wg == nil {
		return nil
	}
	var names []string
	for _, f := range e.FileStore.Files() {
		names = append(names, f.Path())
	}
	sort.Strings(names)
	s := e.fullCompactionStrategy(CompactionGroup(names), false)
	if s == nil {
		return nil
	}
	done := make(chan struct{})
	wg.Add(1)
	go func() {
		defer wg.Done()
		defer close(done)
		s.Apply()
	}()
	return done
}

// VLayout describes the physical layout of the shard: per TSM file its keys,
// blocks (min, max, count) and tombstones, plus cache and snapshot sizes.
func (e *Engine) VLayout() string {
	var out []string
	for _, f := range e.FileStore.Files() {
		gen, seq, _ := e.FileStore.ParseFileName(f.Path())
		s := fmt.Sprintf("file g%d-s%d:", gen, seq)
		it := f.BlockIterator()
		for it.Next() {
			key, minT, maxT, typ, _, buf, err := it.Read()
			if err != nil {
				s += " ERR:" + err.Error()
				break
			}
			n, _ := BlockCount(buf)
			s += fmt.Sprintf(" %s/%d[%d,%d]x%d", key, typ, minT, maxT, n)
		}
		if f.HasTombstones() {
			s += " tombstones:"
			seen := map[string]bool{}
			it2 := f.BlockIterator()
			for it2.Next() {
				key, _, _, _, _, _, err := it2.Read()
				if err != nil || seen[string(key)] {
					continue
				}
				seen[string(key)] = true
				for _, r := range f.TombstoneRange(key) {
					s += fmt.Sprintf(" %s[%d,%d]", key, r.Min, r.Max)
				}
			}
		}
		out = append(out, s)
	}
	sort.Strings(out)
	return fmt.Sprintf("%v cache=%d", out, e.Cache.Size())
}
