//go:build verif

// Verification-only access to the unexported hinted-handoff queue. Injected by
// `go build -overlay`; it only calls existing code.
package hh

import (
	"time"

	"github.com/influxdata/influxdb/models"
)

// VQueue wraps the real queue.
type VQueue struct{ q *queue }

func VNewQueue(dir string, maxSize int64, maxWrites int) (*VQueue, error) {
	q, err := newQueue(dir, maxSize, maxWrites)
	return &VQueue{q}, err
}
func (v *VQueue) Open() error                        { return v.q.Open() }
func (v *VQueue) Close() error                       { return v.q.Close() }
func (v *VQueue) Append(b []byte) error              { return v.q.Append(b) }
func (v *VQueue) Current() ([]byte, error)           { return v.q.Current() }
func (v *VQueue) Advance() error                     { return v.q.Advance() }
func (v *VQueue) Truncate() error                    { return v.q.Truncate() }
func (v *VQueue) Empty() bool                        { return v.q.Empty() }
func (v *VQueue) SetMaxSegmentSize(n int64) error    { return v.q.SetMaxSegmentSize(n) }
func (v *VQueue) PurgeOlderThan(t time.Time) error   { return v.q.PurgeOlderThan(t) }
func (v *VQueue) DiskUsage() int64                   { v.q.mu.RLock(); defer v.q.mu.RUnlock(); return v.q.diskUsage() }
func (v *VQueue) Segments() int                      { v.q.mu.RLock(); defer v.q.mu.RUnlock(); return len(v.q.segments) }

const VFooterSize = footerSize
const VDefaultSegmentSize = defaultSegmentSize

// VMarshalWrite / VUnmarshalWrite are the block codec of the node processor.
func VMarshalWrite(shardID uint64, points []models.Point) []byte { return marshalWrite(shardID, points) }
func VUnmarshalWrite(b []byte) (uint64, [][]byte, error)         { return unmarshalWrite(b) }

// VQueueOf exposes the queue of an open node processor.
func VQueueOf(n *NodeProcessor) *VQueue { return &VQueue{n.queue} }

// VProcessor returns the node processor of (node, shard) if the service has one.
func (s *Service) VProcessor(nodeID, shardID uint64) *NodeProcessor {
	s.mu.RLock()
	defer s.mu.RUnlock()
	p, _ := s.processor(nodeID, shardID)
	return p
}
