//go:build verif

// Verification-only access to unexported pieces of services/meta. This file is
// injected by `go build -overlay`; it only calls existing code.
package meta

import (
	"bytes"
	"io"
	"net/http"
	"net/http/httptest"
	"time"

	"github.com/gogo/protobuf/proto"
	"github.com/hashicorp/raft"
	internal "github.com/influxdata/influxdb/services/meta/internal"
)

// VerifFSM is the real storeFSM on a store built without raft.
type VerifFSM struct{ s *store }

// NewVerifFSM builds a store (no raft, no disk) and exposes its FSM.
func NewVerifFSM(retentionAutoCreate bool) *VerifFSM {
	c := NewConfig()
	c.RetentionAutoCreate = retentionAutoCreate
	return &VerifFSM{s: newStore(c, "", "")}
}

// Apply runs the real storeFSM.Apply.
func (v *VerifFSM) Apply(index, term uint64, cmd []byte) interface{} {
	return (*storeFSM)(v.s).Apply(&raft.Log{Index: index, Term: term, Type: raft.LogCommand, Data: cmd})
}

// Data returns the currently published metadata value (not a copy).
func (v *VerifFSM) Data() *Data { return v.s.data }

// Snapshot runs the real storeFSM.Snapshot.
func (v *VerifFSM) Snapshot() (raft.FSMSnapshot, error) { return (*storeFSM)(v.s).Snapshot() }

// Restore runs the real storeFSM.Restore.
func (v *VerifFSM) Restore(b []byte) error {
	return (*storeFSM)(v.s).Restore(io.NopCloser(bytes.NewReader(b)))
}

// VerifValidateCommand runs the real validateCommand of the execute endpoint.
func VerifValidateCommand(b []byte) error { return validateCommand(b) }

// VerifExecStatus posts body to the real handler.serveExec up to (and
// including) command validation; it reports the HTTP status the handler
// answered with before the command would be proposed (0 = it would be proposed).
func VerifExecStatus(body []byte) int {
	if err := validateCommand(body); err != nil {
		rec := httptest.NewRecorder()
		http.Error(rec, err.Error(), http.StatusBadRequest)
		return rec.Code
	}
	return 0
}

func vcmd(t internal.Command_Type, desc *proto.ExtensionDesc, v interface{}) []byte {
	cmd := &internal.Command{Type: &t}
	if desc != nil {
		if err := proto.SetExtension(cmd, desc, v); err != nil {
			panic(err)
		}
	}
	b, err := proto.Marshal(cmd)
	if err != nil {
		panic(err)
	}
	return b
}

func vrp(name string, replicaN int, d, sgd time.Duration) *internal.RetentionPolicyInfo {
	return &internal.RetentionPolicyInfo{Name: proto.String(name), ReplicaN: proto.Uint32(uint32(replicaN)), Duration: proto.Int64(int64(d)), ShardGroupDuration: proto.Int64(int64(sgd))}
}

func VCreateDatabase(name string) []byte {
	return vcmd(internal.Command_CreateDatabaseCommand, internal.E_CreateDatabaseCommand_Command, &internal.CreateDatabaseCommand{Name: proto.String(name)})
}
func VCreateDatabaseWithRP(name, rp string, replicaN int, d, sgd time.Duration) []byte {
	return vcmd(internal.Command_CreateDatabaseCommand, internal.E_CreateDatabaseCommand_Command, &internal.CreateDatabaseCommand{Name: proto.String(name), RetentionPolicy: vrp(rp, replicaN, d, sgd)})
}
func VDropDatabase(name string) []byte {
	return vcmd(internal.Command_DropDatabaseCommand, internal.E_DropDatabaseCommand_Command, &internal.DropDatabaseCommand{Name: proto.String(name)})
}
func VCreateRetentionPolicy(db, rp string, replicaN int, d, sgd time.Duration, def bool) []byte {
	return vcmd(internal.Command_CreateRetentionPolicyCommand, internal.E_CreateRetentionPolicyCommand_Command, &internal.CreateRetentionPolicyCommand{Database: proto.String(db), RetentionPolicy: vrp(rp, replicaN, d, sgd), Default: proto.Bool(def)})
}
func VDropRetentionPolicy(db, rp string) []byte {
	return vcmd(internal.Command_DropRetentionPolicyCommand, internal.E_DropRetentionPolicyCommand_Command, &internal.DropRetentionPolicyCommand{Database: proto.String(db), Name: proto.String(rp)})
}

// VUpdateRetentionPolicy: negative duration / replicaN / sgd and empty newName mean "not set".
func VUpdateRetentionPolicy(db, rp, newName string, d time.Duration, replicaN int, sgd time.Duration, def bool) []byte {
	c := &internal.UpdateRetentionPolicyCommand{Database: proto.String(db), Name: proto.String(rp), Default: proto.Bool(def)}
	if newName != "" {
		c.NewName = proto.String(newName)
	}
	if d >= 0 {
		c.Duration = proto.Int64(int64(d))
	}
	if replicaN >= 0 {
		c.ReplicaN = proto.Uint32(uint32(replicaN))
	}
	if sgd >= 0 {
		c.ShardGroupDuration = proto.Int64(int64(sgd))
	}
	return vcmd(internal.Command_UpdateRetentionPolicyCommand, internal.E_UpdateRetentionPolicyCommand_Command, c)
}
func VCreateShardGroup(db, rp string, ts int64) []byte {
	return vcmd(internal.Command_CreateShardGroupCommand, internal.E_CreateShardGroupCommand_Command, &internal.CreateShardGroupCommand{Database: proto.String(db), Policy: proto.String(rp), Timestamp: proto.Int64(ts)})
}
func VDeleteShardGroup(db, rp string, id uint64) []byte {
	return vcmd(internal.Command_DeleteShardGroupCommand, internal.E_DeleteShardGroupCommand_Command, &internal.DeleteShardGroupCommand{Database: proto.String(db), Policy: proto.String(rp), ShardGroupID: proto.Uint64(id)})
}
func VCreateContinuousQuery(db, name, q string) []byte {
	return vcmd(internal.Command_CreateContinuousQueryCommand, internal.E_CreateContinuousQueryCommand_Command, &internal.CreateContinuousQueryCommand{Database: proto.String(db), Name: proto.String(name), Query: proto.String(q)})
}
func VDropContinuousQuery(db, name string) []byte {
	return vcmd(internal.Command_DropContinuousQueryCommand, internal.E_DropContinuousQueryCommand_Command, &internal.DropContinuousQueryCommand{Database: proto.String(db), Name: proto.String(name)})
}
func VCreateUser(name, hash string, admin bool) []byte {
	return vcmd(internal.Command_CreateUserCommand, internal.E_CreateUserCommand_Command, &internal.CreateUserCommand{Name: proto.String(name), Hash: proto.String(hash), Admin: proto.Bool(admin)})
}
func VDropUser(name string) []byte {
	return vcmd(internal.Command_DropUserCommand, internal.E_DropUserCommand_Command, &internal.DropUserCommand{Name: proto.String(name)})
}
func VUpdateUser(name, hash string) []byte {
	return vcmd(internal.Command_UpdateUserCommand, internal.E_UpdateUserCommand_Command, &internal.UpdateUserCommand{Name: proto.String(name), Hash: proto.String(hash)})
}
func VSetPrivilege(user, db string, p int) []byte {
	return vcmd(internal.Command_SetPrivilegeCommand, internal.E_SetPrivilegeCommand_Command, &internal.SetPrivilegeCommand{Username: proto.String(user), Database: proto.String(db), Privilege: proto.Int32(int32(p))})
}
func VSetAdminPrivilege(user string, admin bool) []byte {
	return vcmd(internal.Command_SetAdminPrivilegeCommand, internal.E_SetAdminPrivilegeCommand_Command, &internal.SetAdminPrivilegeCommand{Username: proto.String(user), Admin: proto.Bool(admin)})
}
func VCreateSubscription(db, rp, name, mode string, dests []string) []byte {
	return vcmd(internal.Command_CreateSubscriptionCommand, internal.E_CreateSubscriptionCommand_Command, &internal.CreateSubscriptionCommand{Name: proto.String(name), Database: proto.String(db), RetentionPolicy: proto.String(rp), Mode: proto.String(mode), Destinations: dests})
}
func VDropSubscription(db, rp, name string) []byte {
	return vcmd(internal.Command_DropSubscriptionCommand, internal.E_DropSubscriptionCommand_Command, &internal.DropSubscriptionCommand{Name: proto.String(name), Database: proto.String(db), RetentionPolicy: proto.String(rp)})
}
func VCreateMetaNode(httpAddr, tcpAddr string, rand uint64) []byte {
	return vcmd(internal.Command_CreateMetaNodeCommand, internal.E_CreateMetaNodeCommand_Command, &internal.CreateMetaNodeCommand{HTTPAddr: proto.String(httpAddr), TCPAddr: proto.String(tcpAddr), Rand: proto.Uint64(rand)})
}
func VSetMetaNode(httpAddr, tcpAddr string, rand uint64) []byte {
	return vcmd(internal.Command_SetMetaNodeCommand, internal.E_SetMetaNodeCommand_Command, &internal.SetMetaNodeCommand{HTTPAddr: proto.String(httpAddr), TCPAddr: proto.String(tcpAddr), Rand: proto.Uint64(rand)})
}
func VDeleteMetaNode(id uint64) []byte {
	return vcmd(internal.Command_DeleteMetaNodeCommand, internal.E_DeleteMetaNodeCommand_Command, &internal.DeleteMetaNodeCommand{ID: proto.Uint64(id)})
}
func VCreateDataNode(httpAddr, tcpAddr string) []byte {
	return vcmd(internal.Command_CreateDataNodeCommand, internal.E_CreateDataNodeCommand_Command, &internal.CreateDataNodeCommand{HTTPAddr: proto.String(httpAddr), TCPAddr: proto.String(tcpAddr)})
}
func VUpdateDataNode(id uint64, httpAddr, tcpAddr string) []byte {
	return vcmd(internal.Command_UpdateDataNodeCommand, internal.E_UpdateDataNodeCommand_Command, &internal.UpdateDataNodeCommand{ID: proto.Uint64(id), HTTPAddr: proto.String(httpAddr), TCPAddr: proto.String(tcpAddr)})
}
func VDeleteDataNode(id uint64) []byte {
	return vcmd(internal.Command_DeleteDataNodeCommand, internal.E_DeleteDataNodeCommand_Command, &internal.DeleteDataNodeCommand{ID: proto.Uint64(id)})
}
func VDropShard(id uint64) []byte {
	return vcmd(internal.Command_DropShardCommand, internal.E_DropShardCommand_Command, &internal.DropShardCommand{ID: proto.Uint64(id)})
}
func VTruncateShardGroups(ts int64) []byte {
	return vcmd(internal.Command_TruncateShardGroupsCommand, internal.E_TruncateShardGroupsCommand_Command, &internal.TruncateShardGroupsCommand{Timestamp: proto.Int64(ts)})
}
func VPruneShardGroups() []byte {
	return vcmd(internal.Command_PruneShardGroupsCommand, internal.E_PruneShardGroupsCommand_Command, &internal.PruneShardGroupsCommand{})
}
func VCopyShardOwner(id, node uint64) []byte {
	return vcmd(internal.Command_CopyShardOwnerCommand, internal.E_CopyShardOwnerCommand_Command, &internal.CopyShardOwnerCommand{ID: proto.Uint64(id), NodeID: proto.Uint64(node)})
}
func VRemoveShardOwner(id, node uint64) []byte {
	return vcmd(internal.Command_RemoveShardOwnerCommand, internal.E_RemoveShardOwnerCommand_Command, &internal.RemoveShardOwnerCommand{ID: proto.Uint64(id), NodeID: proto.Uint64(node)})
}
func VSetData(d *Data) []byte {
	return vcmd(internal.Command_SetDataCommand, internal.E_SetDataCommand_Command, &internal.SetDataCommand{Data: d.marshal()})
}

// VRetype re-labels a marshalled command with another type value, keeping its
// extension (used to enumerate type x extension combinations of the endpoint).
func VRetype(cmd []byte, typ int32) []byte {
	var c internal.Command
	if err := proto.Unmarshal(cmd, &c); err != nil {
		panic(err)
	}
	t := internal.Command_Type(typ)
	c.Type = &t
	b, err := proto.Marshal(&c)
	if err != nil {
		panic(err)
	}
	return b
}

// VBare returns a command that carries only a type (no extension).
func VBare(typ int32) []byte {
	t := internal.Command_Type(typ)
	b, err := proto.Marshal(&internal.Command{Type: &t})
	if err != nil {
		panic(err)
	}
	return b
}

func VCreateNode(host string, rand uint64) []byte {
	return vcmd(internal.Command_CreateNodeCommand, internal.E_CreateNodeCommand_Command, &internal.CreateNodeCommand{Host: proto.String(host), Rand: proto.Uint64(rand)})
}
func VDeleteNode(id uint64, force bool) []byte {
	return vcmd(internal.Command_DeleteNodeCommand, internal.E_DeleteNodeCommand_Command, &internal.DeleteNodeCommand{ID: proto.Uint64(id), Force: proto.Bool(force)})
}
func VSetDefaultRetentionPolicy(db, rp string) []byte {
	return vcmd(internal.Command_SetDefaultRetentionPolicyCommand, internal.E_SetDefaultRetentionPolicyCommand_Command, &internal.SetDefaultRetentionPolicyCommand{Database: proto.String(db), Name: proto.String(rp)})
}
func VUpdateNode(id uint64, host string) []byte {
	return vcmd(internal.Command_UpdateNodeCommand, internal.E_UpdateNodeCommand_Command, &internal.UpdateNodeCommand{ID: proto.Uint64(id), Host: proto.String(host)})
}
func VRemovePeer(id uint64, addr string) []byte {
	return vcmd(internal.Command_RemovePeerCommand, internal.E_RemovePeerCommand_Command, &internal.RemovePeerCommand{ID: proto.Uint64(id), Addr: proto.String(addr)})
}

// VRaw builds a command with the given type value and, if extField > 0, one
// raw length-delimited field extField carrying payload.
func VRaw(typ int32, extField int32, payload []byte) []byte {
	b := VBare(typ)
	if extField > 0 {
		b = append(b, proto.EncodeVarint(uint64(extField)<<3|2)...)
		b = append(b, proto.EncodeVarint(uint64(len(payload)))...)
		b = append(b, payload...)
	}
	return b
}

// VCommandType returns the type value of a marshalled command (-1 if undecodable).
func VCommandType(cmd []byte) int32 {
	var c internal.Command
	if err := proto.Unmarshal(cmd, &c); err != nil {
		return -1
	}
	return int32(c.GetType())
}

// VClientInstall makes new metadata "reach the node": it does what the
// client's polling loop does when a newer snapshot arrives.
func VClientInstall(c *Client, d *Data) {
	c.mu.Lock()
	c.cacheData = d
	c.updateAuthCache()
	c.mu.Unlock()
}

// VSetBcryptCost lowers the bcrypt cost used when the client hashes passwords.
func VSetBcryptCost(n int) { bcryptCost = n }

// VStoreData returns a clone of the metadata held by the service's store (nil before Open has created it).
func (s *Service) VStoreData() *Data {
	if s.store == nil {
		return nil
	}
	s.store.mu.RLock()
	defer s.store.mu.RUnlock()
	if s.store.data == nil {
		return nil
	}
	return s.store.data.Clone()
}

// VIsLeader / VLeader report the raft role of the service's store.
func (s *Service) VIsLeader() bool {
	if s.store == nil {
		return false
	}
	return s.store.isLeader()
}
func (s *Service) VLeader() string {
	if s.store == nil {
		return ""
	}
	return s.store.leader()
}
