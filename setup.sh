#!/bin/bash
# Builds the framework offline and warms the build cache for every harness.
set -e
export GOFLAGS=-mod=mod GOPROXY=off GOSUMDB=off GOTOOLCHAIN=local
export PATH=/opt/veriftools/go1.26.8/bin:$PATH
cd /verif
cp /repo/go.sum go.sum
mkdir -p bin .cache evidence replays
go build -o bin/vinstr ./cmd/vinstr
for h in harness/c[0-9][0-9]; do
  id=$(basename $h | tr a-z A-Z)
  VERIF_BUILD_ONLY=1 ./vcheck $id quick || { echo "setup: build of $h failed"; exit 1; }
done
echo setup ok
