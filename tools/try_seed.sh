#!/bin/bash
# usage: try_seed.sh <seed-dir> <ID> [tier] — applies the seeded patch to /repo, runs the check, reverts.
D=$(realpath "$1"); ID=$2; TIER=${3:-quick}
cd /repo || exit 2
[ -z "$(git status --porcelain)" ] || { echo "/repo not clean"; exit 2; }
trap 'cd /repo && git reset -q && git checkout -q HEAD -- . && git clean -fdq' EXIT
git apply --3way "$D/patch.diff" >/dev/null 2>&1 || { echo "patch does not apply"; git checkout -q HEAD -- .; exit 2; }
(cd /verif && VERIF_OUT=/dev/shm/verif-try ./vcheck $ID $TIER) > /tmp/try_seed.$$.log 2>&1; rc=$?
git checkout -q HEAD -- . ; git clean -fdq
grep -a -A1 "^VIOLATION\|^KNOWN\|^SUMMARY\|^INTERNAL" /tmp/try_seed.$$.log | cut -c1-240
echo "rc=$rc"; rm -f /tmp/try_seed.$$.log
exit $rc
