#!/usr/bin/env python3
"""Generates /verif/MANIFEST.json from the table below (kept in one place so the
manifest is always valid and complete: every property is either claimed or
listed under not_applicable)."""
import json, os
ROOT = os.path.dirname(os.path.dirname(os.path.abspath(__file__)))
ALL = ["C%02d" % i for i in range(1, 20)]
CHECKS = {
 "C03": dict(level="fault_enumeration", technique="exhaustive enumeration of fault/outcome/arrival-order configurations on the real PointsWriter (stateless explorer, synctest bubble, gate stubs)",
   text="Every (owner count 1..3 [4 thorough], coordinator position, consistency level, per-owner outcome, arrival order, timeout position) configuration is executed on the real coordinator.PointsWriter inside a synctest bubble whose stub store / shard writer / hinted handoff are gates released by the explorer; return class and hinted-handoff offers are compared with a reference model of the consistency levels. The space is finite and enumerated completely.",
   note="Stubs stand for the store, the remote shard writer and the handoff service (only return values and call counts are observed); virtual clock of testing/synctest stands for WriteTimeout; harness built with go1.26.8.", ref="§6 C03"),
 "C06": dict(level="model_checking", technique="explicit-state BFS over command sequences on the real storeFSM.Apply with canonical state hashing; owned map iteration order (overlay rewrite) enumerated",
   text="Breadth-first search over sequences of real marshalled metadata commands (60-command alphabet incl. repeated/conflicting/invalid arguments and a clock-advance event) applied by the real storeFSM.Apply from three base states, depth 3 (4 thorough), states de-duplicated on an exact canonical dump of meta.Data. Every transition is checked for the state invariants (disjoint live groups, unique/never reused ids, even owner spread of new groups, no owner that is not a data node), for 'a rejected command changes nothing', and for replica determinism: a second replica applying the same log at another wall-clock time, and all 6 iteration orders of the owner-frequency map on node removal.",
   note="store built without raft (legacy CreateNode/RemovePeer outside the alphabet); Index kept modulo 6 in the state key (argued in DESIGN §6 C06); other map ranges in services/meta read as order-insensitive.", ref="§6 C06"),
 "C07": dict(level="model_checking", technique="explicit-state BFS over {commands, Snapshot, Persist-later} on the real storeFSM + exhaustive enumeration of execute-endpoint bodies (type x extension) through validateCommand/Apply",
   text="(a) BFS over sequences of commands, Snapshot() and Persist(oldest held handle) on the real storeFSM: Persist runs after any number of later Applies; Restore(Persist(Snapshot@i)) must equal the state and index at i, and restore+replay of the log suffix must equal the primary. (b) every command type value 0..40 x {no extension, own extension empty/garbage, every type's well-formed extension} through the real validateCommand; an accepted body must Apply without panic on two replicas. Parts (c),(d) of DESIGN (real raft service in virtual time) are not built yet; consensus safety of hashicorp/raft is a trusted assumption.",
   note="hashicorp/raft's own safety and schedules are trusted; FSM runs without raft; leader failover/restart clauses are covered only through the FSM/snapshot/validation contract they rely on.", ref="§6 C07"),
 "C08": dict(level="model_checking", technique="explicit-state BFS over metadata histories (real meta.Data) x exhaustive batches over a state-derived timestamp alphabet through the real MapShards, reference routing oracle",
   text="BFS over metadata histories (precreate, alter shard duration, truncate, delete group, add/remove node; depth 3, 4 thorough) on real meta.Data for two retention policies; in every distinct metadata state every batch of 1-2 (3 thorough) points over 4 series spellings x the state's boundary timestamps (group edges +-1ns, truncation times, retention cut-off, min/max time) is mapped by the real PointsWriter.MapShards on a clone and compared with an independent reading of the designated group, FNV-1a shard choice, exactly-once and dropped-iff-too-old.",
   note="fake meta client mirrors meta.Client.CreateShardGroup over real meta.Data; bubble clock for time.Now().", ref="§6 C08"),
 "C12": dict(level="exploration", technique="bounded-exhaustive input enumeration on the real parser/encoder (all strings <= L over a 16-symbol alphabet, token sequences, constructive points, binary frames, line pairs) with round-trip/differential oracles",
   text="Every byte string of length <=6 (7 thorough) over 16 symbols the scanner branches on, every token sequence of the token alphabet (with tag permutations), every constructed abstract point serialised by an independent escaper, every binary frame by structure (declared lengths x key x fields x time encodings) and every (accepted line, short neighbour line) pair is run through the real ParsePoints / String / MarshalBinary / NewPointFromBytes: no panic, text and binary round trip to the same point (exact types and bits), fixed point, canonical tag order, FNV-1a hash of the key, tag-order invariance, line independence, precision scaling.",
   note="small-scope alphabets; violations are keyed by oracle + input class (known parser quirks are listed in known_findings.jsonl).", ref="§6 C12"),
 "C17": dict(level="model_checking", technique="exhaustive enumeration of configurations/fault positions of the real retention.Service loop on a virtual clock (synctest bubble), reference expiry model",
   text="The real retention.Service goroutine runs in a synctest bubble (virtual ticker/time.Now). Every tuple of (duration 0/1h/2h, later alteration, state of 4 shard groups: absent/live/truncated/deleted/deleted>2w, tick 1ns before/at/after the expiry boundary, local shard set incl. unknown ids, metadata error at call k, 1-2 passes) is executed (540k executions) and checked: a local shard is deleted only if its group is marked deleted or end+duration < now; after an error-free pass every expired group is marked and every local shard of a deleted/expired group is gone; nothing of an infinite policy expires.",
   note="meta client is a thin view over a real meta.Data with injected errors; store is a recording stub; the write-time cut-off clause is decided by the C08 check.", ref="§6 C17"),
 "C13": dict(level="exploration", technique="bounded-exhaustive input enumeration on the real tsm1 block encoders/decoders (2 encoders x 2 decoders) and WAL segment reader (every cut offset)",
   text="Per field type every value sequence of length <=4 (5 thorough) over boundary alphabets (2^60 simple8b limit, zig-zag extremes, -0/denormal/extreme floats, empty/64KB strings) x timestamp start/delta alphabets (incl. unsorted/wrapping), plus run families at every length 1..1100 (2100 thorough), each encoded by the iterator encoder and the batch encoder and decoded by DecodeBlock and Decode*ArrayBlock: bit-identical. Every sequence of <=2 (3 thorough) WAL entries of 9 kinds is written with the real segment writer and cut at every byte offset: the reader returns exactly the entries wholly before the cut, unchanged (also after the reader moved on), without panic.",
   note="small-scope alphabets placed on the constants the encoders branch on; NaN/Inf are outside (refused by parser and encoder).", ref="§6 C13"),
 "C04": dict(level="model_checking", technique="explicit-state BFS over queue operations on the real hh queue vs a list model (every state validated by draining a reopened copy) + stateless preemption/delay-bounded schedule exploration of appenders x consumer x Close on the real queue under a controlled scheduler (synctest bubble, sync shim)",
   text="(a) BFS (depth 5, 7 thorough) over Append at sizes around the segment limit, a 12-segment burst, Peek, Consume, SetMaxSegmentSize up/down, Close+Open, purge with and without aged files on the real queue with 64-byte segments; after every transition Empty() <=> nothing pending and a reopened copy drains to exactly the accepted, un-consumed blocks in order. (c) k in {2,3} appenders (+consumer) racing Close with preemption bound 2 (3 thorough), and 11-12 appenders (the buffered path above ten writers in flight) with delay bound 1 (2 thorough), every sync operation of services/hh a scheduling point: after quiescence (and, without Close, while the queue is still open) every append that returned nil is in the queue exactly once, preloaded blocks keep their order, the consumer saw the oldest block. The crash-point part (b) of DESIGN is not built yet.",
   note="tmpfs files (fsync is a no-op: crash clauses are not decided here); 64-byte segments stand for 10 MB; data races outside a cooperative scheduler; harness built with go1.26.8 testing/synctest.", ref="§6 C04"),
 "C02": dict(level="model_checking", technique="explicit-state BFS over shard operations on a real tsdb.Store/tsm1 engine (state = model content + physical layout), every transition followed by exhaustive reads vs a last-write-wins reference model",
   text="BFS over 17 operations (write batches of all five field types with duplicate, out-of-order, extreme and identical timestamps, a 16-point duplicate/out-of-order batch, a type-conflicting point, snapshot, full/optimize/level/planned compactions through the real strategies and planner, two range deletes, reopen) to depth 4 (5 thorough; tsi1 as well in thorough), plus an 8-operation core alphabet to depth 6 (7 thorough), on a real store with WAL and 2 points per block. After every transition each measurement field is read over 10 ranges/directions through Shard.CreateIterator and each series field through the storage cursor path and compared with the model; a conflicting point must be reported as a partial write dropping exactly it.",
   note="2 points per block stand for 1000; runs inside a synctest bubble so background loops are inert; a batch that gives a brand-new field two types is outside the statement and skipped.", ref="§6 C02"),
 "C10": dict(level="model_checking", technique="explicit-state BFS over write/delete/drop/snapshot/compaction/reopen histories on a real tsdb.Store for both index types, every transition followed by exhaustive reads and index listings vs a reference model; hang watchdog",
   text="(a) BFS over 20 operations (writes to three series in two measurements incl. writes after deletes, closed/open-ended/single-instant range deletes, series drops by tag predicate within one and across all measurements, DROP MEASUREMENT, whole-database delete, snapshot, full and optimize compaction, reopen) from an empty shard and from a two-file base state, depth 3-4 (4-5 thorough), inmem and tsi1. After every transition all reads (iterator and cursor paths) and all listings (measurement names, tag keys, tag values, series of the index, series cardinality) must equal the model: deleted points never reappear, series with points stay listed, fully deleted series/tag values/measurements are not listed. Parts (b) crash points and (c) schedules of DESIGN are not built yet.",
   note="runs in a synctest bubble (background loops inert); a run that does not finish within 120 s real time is reported as a hang; known tsi1 tag-value finding is tolerated so that states behind it are still explored.", ref="§6 C10"),
 "C14": dict(level="model_checking", technique="explicit-state BFS over index histories executed in lock-step on two real stores (inmem, tsi1), differential + reference-model oracle on every listing/predicate query after every transition",
   text="BFS (depth 5, 6 thorough) over series creation (4 series, 2 measurements, 2 tag keys), drops by tag predicate, DROP MEASUREMENT, delete-all-points, re-creation, tsi1 index compaction (log file rolled after every write, Index.Compact+Wait), series-file partition compaction, snapshot and reopen, executed in lock-step on an inmem store and a tsi1 store. After every transition 8 predicates (=, !=, =~, !~, empty value, conjunction) x (measurement names, series of each measurement via MeasurementSeriesByExprIterator, host tag values) + tag keys + series cardinality are asked of both stores and compared with the set of series written and not dropped.",
   note="SHOW MEASUREMENTS with negative/empty tag filters is compared differentially only (InfluxQL measurement-level filter semantics); tsi1's stale tag key/value entries are known findings and tolerated so that states behind them are explored; deletes name one measurement (see assumptions in the evidence).", ref="§6 C14"),
 "C09": dict(level="model_checking", technique="bounded-exhaustive enumeration of input file sets x compaction modes on the real Compactor/FileStore against a newest-wins reference model, plus explicit-state BFS over engine snapshot/compaction operations with injected install failures",
   text="Every set of 2 (3 thorough) real TSM files (per file 7-8 block layouts of one key x 2-3 of another x 4-5 tombstone shapes incl. partial and whole-key) x {full, fast} x block size {2,1000} (3 thorough) is compacted by the real Compactor and installed by FileStore.Replace: reads through FileStore.KeyCursor before = after = independent newest-wins-minus-tombstones model; output blocks sorted, non-overlapping, within the size limit; no temporary files left. A thinner slice repeats this for integer/unsigned/string/boolean values, with a corrupted input block (run in a child process under a 4 GB / 300 s limit: must fail, leave inputs and no tmp files) and with a failing install. Engine level: BFS (depth 4, 5 thorough) over writes, snapshot, full compaction, snapshot/compaction whose install is refused by a FileStoreObserver, reopen: reads equal the model after every transition.",
   note="file sets are built directly with TSMWriter/Tombstoner; abort points under a concurrent DisableCompactions are schedule exploration (not built yet).", ref="§6 C09"),
}
NA_REASON = "check not built yet in this round (planned in DESIGN.md §6); nothing is claimed for it"
m = {
 "version": 1,
 "setup_cmd": "cd /verif && ./setup.sh",
 "hooks": {
  "guard": "verif",
  "enable": "go test -c -tags verif -overlay /verif/.cache/overlay/<id>.json (overlay generated by /verif/bin/vinstr from /verif/export and /verif/shim; /repo itself carries no hook code)",
  "baseline_off_cmd": "cd /repo && go build ./... && go test -vet=off -count=1 ./...",
  "source_commits": [],
  "add_only": True,
 },
 "engines": [
  {"name": "explore", "path": "/verif/mc/explore", "serves_properties": sorted(CHECKS), "kind_free_text": "stateless choice-tape explorer (deviation-bounded DFS by re-execution) and explicit-state BFS over operation sequences of the real objects"},
 ],
 "checks": [],
 "not_applicable": [],
 "notes": "All checks: ./vcheck <ID> <tier>; rebuilds the harness from /repo's working tree with -tags verif and a generated overlay. Known findings: /verif/known_findings.jsonl.",
}
for pid in ALL:
    c = CHECKS.get(pid)
    if not c:
        m["not_applicable"].append({"property_id": pid, "reason": NA_REASON})
        continue
    m["checks"].append({
     "property_id": pid,
     "quick_cmd": "./vcheck %s quick" % pid,
     "thorough_cmd": "./vcheck %s thorough" % pid,
     "evidence_file": "/verif/evidence/%s.json" % pid,
     "replay_cmd_template": "./vcheck %s quick -- -replay {path}" % pid,
     "engine": "explore",
     "level_claimed": {"category": c["level"], "text": c["text"], "design_ref": c["ref"]},
     "level_note": c["note"],
     "technique": c["technique"],
    })
json.dump(m, open(os.path.join(ROOT, "MANIFEST.json"), "w"), indent=1)
print("checks:", [c["property_id"] for c in m["checks"]])
