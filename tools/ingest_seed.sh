#!/bin/bash
# usage: ingest_seed.sh <worktree> <seed-name> — collects a sub-agent's change from its scratch
# worktree into /verif/seeded/<seed-name>/ (patch.diff + demo_test.go); meta.json is written by hand.
set -eu
W=$1; N=$2; D=/verif/seeded/$N
mkdir -p "$D"
demo=$(cd "$W" && git ls-files --others --exclude-standard | grep 'zz_seed_demo_test.go$' | head -1)
[ -n "$demo" ] || { echo "no demo file in $W"; exit 1; }
pkg=$(dirname "$demo")
{ echo "// Place in $pkg/ (as zz_seed_demo_test.go). Run:"; echo "//   go test -vet=off -count=1 -run 'TestSeedDemo' ./$pkg/"; cat "$W/$demo"; } > "$D/demo_test.go"
(cd "$W" && git diff HEAD) > "$D/patch.diff"
echo "$pkg" > "$D/.pkg"
echo "ingested $N: pkg=$pkg patch=$(wc -l < "$D/patch.diff") lines"
