#!/bin/bash
# usage: confirm_seed.sh <seed-dir> — confirms a seeded change in a scratch worktree:
# demo passes without the patch, patch applies and builds, demo fails with it,
# existing tests of the touched packages still pass. Writes <seed-dir>/confirm.log.
set -u
D=$(realpath "$1")
export GOFLAGS=-mod=mod GOPROXY=off GOSUMDB=off
W=/tmp/wt/confirm-$$
git -C /repo worktree add --detach -q "$W" HEAD || exit 2
trap 'git -C /repo worktree remove --force "$W" >/dev/null 2>&1' EXIT
LOG=$D/confirm.log; : > "$LOG"
pkgdir=$(head -5 "$D/demo_test.go" | grep -o '[a-z][a-z0-9_/]*/[a-z0-9_/]*' | head -1)
[ -n "${SEED_PKG:-}" ] && pkgdir=$SEED_PKG
pkgdir=${pkgdir#./}; pkgdir=${pkgdir%/}
[ -d "$W/$pkgdir" ] || { echo "cannot find demo package dir ($pkgdir)" | tee -a "$LOG"; exit 2; }
cp "$D/demo_test.go" "$W/$pkgdir/zz_seed_demo_test.go"
run() { (cd "$W" && unshare -n sh -c "ip link set lo up; $*") ; }
tests=$(grep -o 'func Test[A-Za-z0-9_]*' "$D/demo_test.go" | sed 's/func //' | paste -sd'|')
echo "demo package: $pkgdir tests: $tests" >> "$LOG"
run "go test -vet=off -count=1 -run '^($tests)\$' ./$pkgdir/" >> "$LOG" 2>&1; a=$?
echo "demo without patch: rc=$a" | tee -a "$LOG"
(cd "$W" && git apply --3way "$D/patch.diff") >> "$LOG" 2>&1 || { echo "patch does not apply" | tee -a "$LOG"; exit 1; }
(cd "$W" && go build ./... ) >> "$LOG" 2>&1; b=$?
echo "build with patch: rc=$b" | tee -a "$LOG"
run "go test -vet=off -count=1 -run '^($tests)\$' ./$pkgdir/" >> "$LOG" 2>&1; c=$?
echo "demo with patch: rc=$c" | tee -a "$LOG"
rm -f "$W/$pkgdir/zz_seed_demo_test.go"
touched=$(cd "$W" && git diff HEAD --name-only | xargs -n1 dirname | sort -u)
rc=0
for p in $touched; do
  run "go test -vet=off -count=1 ./$p/" >> "$LOG" 2>&1; r=$?
  echo "existing tests ./$p/: rc=$r" | tee -a "$LOG"
  [ $r -ne 0 ] && rc=1
done
if [ $a -eq 0 ] && [ $b -eq 0 ] && [ $c -ne 0 ] && [ $rc -eq 0 ]; then echo "CONFIRMED" | tee -a "$LOG"; exit 0; fi
echo "NOT CONFIRMED" | tee -a "$LOG"; exit 1
